#!/usr/bin/env python3
"""Sensitivity: applies one-line mutations of classy_blocks in a scratch copy of /repo/src
(under /tmp, removed afterwards), runs the named checks against the copy and reports
whether each is caught.  usage: tools/mutants.py [--suite] [id ...]"""

import json
import os
import shutil
import subprocess
import sys
import tempfile
import time

PY = "/venv/bin/python"
M = [
 # id, file, old, new, checks expected to catch
 ("C01-drop-coincident-check", "items/wires/manager.py", "if coincident.grading.count != wire.grading.count:", "if False:", ["C01"]),
 ("C01-drop-consistency", "lists/block_list.py", "        for block in self.blocks:\n            block.check_consistency()", "        return", ["C01"]),
 ("C02-copy-from-chopless", "items/wires/axis.py", "if neighbour.is_defined and len(neighbour.wires.chops) > 0:", "if neighbour.is_defined:", ["C02"]),
 ("C02-plain-set-neighbours", "items/wires/axis.py", "self.neighbours: Set[Axis] = OrderedSet()", "self.neighbours: Set[Axis] = set()", ["C02"]),
 ("C02-plain-set-coincidents", "items/wires/wire.py", "self.coincidents: Set[Wire] = OrderedSet()", "self.coincidents: Set[Wire] = set()", ["C02"]),
 ("C02-copy-returns-true", "items/wires/axis.py", "                self.grade()\n                return True\n\n        return False", "                self.grade()\n                return True\n\n        return True", ["C02"]),
 ("C02-open-before-grade", "mesh.py", "        self.grade()\n\n        with open(output_path, \"w\", encoding=\"utf-8\") as output:\n            output.write(constants.MESH_HEADER)", "        with open(output_path, \"w\", encoding=\"utf-8\") as output:\n            output.write(constants.MESH_HEADER)\n            self.grade()", ["C02"]),
 ("C02-no-inverted-copy", "items/wires/axis.py", "self.wires.add_chop(chop.copy_preserving(inverted=True))", "self.wires.add_chop(chop.copy_preserving())", ["C04"]),
 ("C04-swap-aligned", "items/wires/manager.py", "                    if coincident.is_aligned(wire):\n                        wire.grading = coincident.grading\n                    else:\n                        wire.grading = coincident.grading.inverted", "                    if not coincident.is_aligned(wire):\n                        wire.grading = coincident.grading\n                    else:\n                        wire.grading = coincident.grading.inverted", ["C04"]),
 ("C04-no-spec-reverse", "grading/grading.py", "        g_inv.specification.reverse()\n", "", ["C04"]),
 ("C04-no-length-refresh", "items/wires/manager.py", "        # wires were created with straight edges; lengths of curved ones must be refreshed\n        self.update()\n", "", ["C04"]),
 ("C04-invert-keeps-preserve", "grading/chop.py", "        if self.preserve == \"start_size\":\n            self.preserve = \"end_size\"\n        elif self.preserve == \"end_size\":\n            self.preserve = \"start_size\"", "        pass", ["C04"]),
 ("C04-is-simple-always", "items/wires/manager.py", "            if wire.grading != first_grading:\n                return False", "            if wire.grading != first_grading:\n                return True", ["C04"]),
 ("C04-no-reversed-chops", "items/wires/axis.py", "for chop in reversed(neighbour.wires.chops):", "for chop in neighbour.wires.chops:", ["C04"]),
 ("C04-later-edges-not-handed-back", "mesh.py", "                    if wire.edge.kind == \"line\":", "                    if False:", ["C04"]),
 ("C05-no-sort", "lists/vertex_list.py", "        slave_patches.sort()\n", "", ["C05"]),
 ("C05-tol-x1000", "lists/vertex_list.py", "if f.norm(position - dupe.point) < constants.TOL:", "if f.norm(position - dupe.point) < 1000 * constants.TOL:", ["C05"]),
 ("C05-tol-div100", "lists/vertex_list.py", "if f.norm(position - dupe.point) < constants.TOL:", "if f.norm(position - dupe.point) < constants.TOL / 100:", ["C05"]),
 ("C05-ignore-patches", "lists/vertex_list.py", "                if dupe.patches == slave_patches:\n                    return dupe.vertex", "                return dupe.vertex", ["C05"]),
 ("C05-master-not-removed", "mesh.py", "            patches = patches.intersection(self.patch_list.slave_patches)\n", "", ["C05"]),
 ("C05-corner-patches-wrong-side", "construct/operations/operation.py", "patches.add(self.side_patches[(index + 3) % 4])", "patches.add(self.side_patches[(index + 1) % 4])", ["C05"]),
 ("C12-backport-by-position", "mesh.py", "for op, block in zip(self.assembled_operations, self.blocks):", "for op, block in zip(self.operations, self.blocks):", ["C12"]),
 ("C12-assembled-ops-not-cleared", "mesh.py", "        self.assembled_operations.clear()\n", "", ["C12"]),
 ("C12-no-grading-reset", "lists/block_list.py", "        for block in self.blocks:\n            block.reset_grading()\n", "", ["C12"]),
 ("C12-reset-keeps-propagated-chops", "items/wires/manager.py", "        # chops were copied from neighbours\n        self.chops = []\n", "", ["C12"]),
 ("C12-patch-mods-forgotten", "lists/patch_list.py", "            if name in self.modified:", "            if False:", ["C12"]),
 ("C12-face-list-not-cleared", "mesh.py", "        self.face_list.clear()\n", "", ["C12"]),
 ("C12-edge-list-not-cleared", "mesh.py", "        self.edge_list.clear()\n", "", ["C12"]),
 ("C12-duplicated-not-cleared", "lists/vertex_list.py", "        self.vertices.clear()\n        self.duplicated.clear()", "        self.vertices.clear()", ["C12"]),
 ("C12-deleted-ignored-in-assemble", "mesh.py", "                if operation in self.deleted:\n                    continue\n", "", ["C12"]),
 ("C12-backport-top-face-only", "mesh.py", "            op.bottom_face.update(vertices[:4])\n", "", ["C12"]),
 ("C12-backport-no-reassemble", "mesh.py", "        self.clear()\n        self.assemble()\n\n    def format_settings", "        self.clear()\n\n    def format_settings", ["C12"]),
 ("C12-clear-forgets-default-patch", "lists/patch_list.py", "        self.patches.clear()\n", "        self.patches.clear()\n        self.default = {}\n", ["C12"]),
 ("C12-clear-forgets-merged", "lists/patch_list.py", "        self.patches.clear()\n", "        self.patches.clear()\n        self.merged = []\n", ["C12"]),
 ("C13-rollback-keeps-grid-point", "optimize/optimizer.py", "                reporter.rollback()\n\n                clamp.update_params(initial_params)\n                self.grid.update(junction.index, clamp.position)", "                reporter.rollback()\n\n                clamp.update_params(initial_params)", ["C13"]),
 ("C13-no-rollback", "optimize/optimizer.py", "            if reporter.improvement <= 0:", "            if False:", ["C13"]),
 ("C13-skip-keeps-state", "optimize/optimizer.py", "            reporter.skip()\n            clamp.update_params(initial_params)\n            self.grid.update(junction.index, clamp.position)", "            reporter.skip()", ["C13"]),
 ("C13-links-not-updated", "optimize/grid.py", "                self.points[indexed_link.follower_index] = indexed_link.link.follower\n", "                pass\n", ["C13"]),
 ("C13-sensitivity-not-restored", "optimize/optimizer.py", "        clamp.update_params(initial_params)\n        self.grid.update(junction.index, clamp.position)\n\n        return np.linalg.norm(sensitivities)", "        return np.linalg.norm(sensitivities)", ["C13"]),
 ("C13-backport-skips-last", "optimize/optimizer.py", "        for i, point in enumerate(self.grid.points):\n            self.mesh.vertices[i].move_to(point)", "        for i, point in enumerate(self.grid.points[:-1]):\n            self.mesh.vertices[i].move_to(point)", ["C13"]),
 ("C13-mirror-in-place", "util/functions.py", "    point = point - origin\n", "    point -= origin\n", ["C13"]),
 ("C13-bounds-ignored", "optimize/optimizer.py", "scipy.optimize.minimize(fquality, clamp.params, bounds=clamp.bounds, method=method)", "scipy.optimize.minimize(fquality, clamp.params, method=method)", ["C13"]),
 ("C13-rotation-link-sign", "optimize/links.py", "        if np.dot(cross_rad, self.axis) < 0:\n            angle = -angle", "        pass", ["C13"]),
 ("C13-sensitivity-steps-over-bounds", "optimize/optimizer.py", "                params = np.clip(params, lower, upper)\n", "                pass\n", ["C13"]),
 ("C13-probe-degenerate-escapes", "optimize/optimizer.py", "        except ValueError:\n            # a degenerate cell was met while probing", "        except KeyError:\n            # a degenerate cell was met while probing", ["C13"]),
 ("C13-sketch-backport-missing", "optimize/optimizer.py", "        self.sketch.update(self.grid.points)", "        pass", ["C13"]),
 ("C06-facemap-left", "util/constants.py", '"left": (4, 0, 3, 7),', '"left": (4, 0, 3, 6),', ["C06"]),
 ("C06-facemap-front-back-swapped", "util/constants.py", '"front": (4, 5, 1, 0),\n    "back": (7, 6, 2, 3),', '"front": (7, 6, 2, 3),\n    "back": (4, 5, 1, 0),', ["C06"]),
 ("C06-no-merge-pairs", "lists/patch_list.py", '            out += f"\\t({pair[0]} {pair[1]})\\n"', '            pass', ["C06"]),
 ("C06-vtk-off-by-one", "util/vtk_writer.py", 'output.write(f" {vertex.index}")', 'output.write(f" {vertex.index + 1}")', ["C06"]),
 ("C06-vtk-drops-last-block", "util/vtk_writer.py", "        for block in blocks:\n            output.write(\"8\")", "        for block in blocks[:-1] or blocks:\n            output.write(\"8\")", ["C06"]),
 ("C06-patch-type-lost", "items/patch.py", 'out += indent(f"type {self.kind};", 2)', 'out += indent("type patch;", 2)', ["C06"]),
 ("C06-default-patch-kind-name-swapped", "lists/patch_list.py", "out += f\"\\tname {self.default['name']};\\n\"", "out += f\"\\tname {self.default['kind']};\\n\"", ["C06"]),
 ("C06-zone-dropped", "mesh.py", "                block.cell_zone = operation.cell_zone\n", "", ["C06"]),
 ("C06-geometry-overwrite", "lists/geometry_list.py", "self.geometry = {**self.geometry, **geometry}", "self.geometry = {**geometry}", ["C06"]),
 ("C06-faces-top-skipped", "lists/face_list.py", '        self.add_face(vertices, "top", operation.top_face)\n', "", ["C06"]),
 ("C06-side-projects-shifted", "lists/face_list.py", "            label = operation.side_projects[index]", "            label = operation.side_projects[(index + 1) % 4]", ["C06"]),
 ("C06-vertex-projection-lost", "items/vertex.py", "        vertex.projected_to = point.projected_to\n", "", ["C06"]),
 ("C06-settings-skipped", "mesh.py", "            if value is not None:\n                out += f\"{key} {value};\\n\"", "            if value is not None and key != \"mergeType\":\n                out += f\"{key} {value};\\n\"", ["C06"]),
 ("C06-patch-settings-lost", "items/patch.py", "        for option in self.settings:\n            out += indent(f\"{option};\", 2)\n", "", ["C06"]),
 ("C06-sphere-radius-wrong", "construct/shapes/sphere.py", 'f"radius {self.radius}",', 'f"radius {self.radius / 2}",', ["C06"]),
 ("C06-patch-dup-side-kept", "items/patch.py", "                warnings.warn(f\"Side {side.description} has already been assigned to {self.name}\", stacklevel=2)\n                return\n", "                pass\n", ["C06"]),
 ("C06-block-order-vertices", "items/block.py", 'fmt_vertices = "( " + " ".join(str(v.index) for v in self.vertices) + " )"', 'fmt_vertices = "( " + " ".join(str(v.index) for v in self.vertices[4:] + self.vertices[:4]) + " )"', ["C06"]),
]


def run(ids, with_suite=False):
    results = []
    for (mid, rel, old, new, checks) in M:
        if ids and mid not in ids and not any(mid.startswith(i) for i in ids):
            continue
        tmp = tempfile.mkdtemp(prefix="mut_", dir="/tmp")
        try:
            shutil.copytree("/repo/src", tmp + "/src")
            path = f"{tmp}/src/classy_blocks/{rel}"
            text = open(path).read()
            if old not in text:
                results.append({"id": mid, "error": "pattern not found"})
                print(mid, "PATTERN NOT FOUND")
                continue
            open(path, "w").write(text.replace(old, new, 1))
            row = {"id": mid, "file": rel, "checks": {}}
            if with_suite:
                shutil.copytree("/repo/tests", tmp + "/tests")
                shutil.copy("/repo/pyproject.toml", tmp + "/pyproject.toml")
                env = dict(os.environ, PYTHONPATH=tmp + "/src")
                p = subprocess.run([PY, "-m", "pytest", "-q", "-p", "no:cacheprovider", "-x", "-n", "8", "--deselect",
                                    "tests/test_construct/test_curves/test_interpolated.py::SplineInterpolatedCurveTests::test_length", "tests"],
                                   cwd=tmp, env=env, capture_output=True, text=True, timeout=1800)
                row["suite_passes"] = p.returncode == 0
            for c in checks:
                t0 = time.time()
                env = dict(os.environ, VERIF_REPO_SRC=tmp + "/src")
                p = subprocess.run([PY, "/verif/check.py", c, "--tier", "quick"], env=env, capture_output=True, text=True, timeout=1800, cwd=tmp)
                lines = [ln for ln in p.stdout.splitlines() if ln.startswith(("VIOLATION", "  class", "HARNESS"))]
                row["checks"][c] = {"exit": p.returncode, "wall_s": round(time.time() - t0, 1), "lines": lines[:4]}
                print(mid, c, "exit", p.returncode, "suite", row.get("suite_passes"), lines[1][:160] if len(lines) > 1 else "")
            results.append(row)
        finally:
            shutil.rmtree(tmp, ignore_errors=True)
    return results


if __name__ == "__main__":
    args = sys.argv[1:]
    suite = "--suite" in args
    ids = [a for a in args if not a.startswith("--")]
    res = run(ids, suite)
    # evidence files were rewritten by the mutant runs: the caller re-runs the real checks afterwards
    json.dump(res, open("/verif/tools/mutants_last.json", "w"), indent=1)
