#!/bin/bash
# regression of detection: every stored seeded change must still be caught by at least one of its checks
cd /verif
for d in seeded/*/; do
  id=$(basename $d)
  checks=$(python3 -c "import json;print(','.join(json.load(open('$d/meta.json'))['checks']))")
  first=${checks%%,*}
  if [ -z "$first" ]; then echo "$id recorded as not detected / no longer a breaking change (see its meta.json and DESIGN 9.2)"; continue; fi
  out=$(/venv/bin/python tools/seeded.py $d --checks $first 2>&1 | grep "^check")
  echo "$id $out"
done
