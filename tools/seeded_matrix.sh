#!/bin/bash
# detection matrix: every stored seeded change x several VERIF_SEED values (quick tier)
cd /verif
for s in "$@"; do
  for d in seeded/*/; do
    id=$(basename $d)
    first=$(python3 -c "import json;print(json.load(open('$d/meta.json'))['checks'][0])")
    out=$(VERIF_SEED=$s /venv/bin/python tools/seeded.py $d --checks $first 2>&1 | grep "^check")
    echo "seed=$s $id $out"
  done
done
