#!/bin/bash
# runs every check's quick tier under several VERIF_SEED values; prints any run that does not exit 0
cd /verif
for s in "$@"; do
  for p in C01 C02 C04 C05 C06 C12 C13; do
    out=$(VERIF_SEED=$s timeout 900 /venv/bin/python check.py $p --tier quick 2>&1); rc=$?
    echo "seed=$s $p rc=$rc $(echo "$out" | tail -1 | cut -c1-120)"
    if [ $rc -ne 0 ]; then echo "$out" | grep -v "^C[0-9]" | head -8 | cut -c1-300; fi
  done
done
