#!/usr/bin/env python3
"""Confirms and evaluates an independently written breaking change.

usage: tools/seeded.py <dir with patch.diff [+ demo.py]> [--suite] [--checks C01,C02] [--tier quick] [--seeds n]

Works on a scratch copy of /repo (src + tests) under /tmp (removed afterwards): applies the
patch there, optionally runs the repository's suite, runs demo.py with and without the
patch, and runs the named checks against the patched copy (VERIF_REPO_SRC).  /repo itself
is never touched."""

import json
import os
import shutil
import subprocess
import sys
import tempfile
import time

PY = "/venv/bin/python"
KNOWN_FAIL = "tests/test_construct/test_curves/test_interpolated.py::SplineInterpolatedCurveTests::test_length"


def sh(cmd, **kw):
    return subprocess.run(cmd, capture_output=True, text=True, **kw)


def main():
    args = sys.argv[1:]
    d = os.path.abspath(args[0])
    suite = "--suite" in args
    checks = None
    tier = "quick"
    seeds = None
    for i, a in enumerate(args):
        if a == "--checks":
            checks = args[i + 1].split(",")
        if a == "--tier":
            tier = args[i + 1]
        if a == "--seeds":
            seeds = args[i + 1]
    meta = {}
    if os.path.exists(d + "/meta.json"):
        meta = json.load(open(d + "/meta.json"))
    checks = checks or meta.get("checks") or [meta.get("property")]
    out = {"dir": d, "checks": {}}
    tmp = tempfile.mkdtemp(prefix="seeded_", dir="/tmp")
    try:
        clean = tmp + "/clean"
        pat = tmp + "/patched"
        for t in (clean, pat):
            os.makedirs(t)
            shutil.copytree("/repo/src", t + "/src")
            shutil.copytree("/repo/tests", t + "/tests")
            shutil.copy("/repo/pyproject.toml", t + "/pyproject.toml")
        p = sh(["patch", "-p1", "-i", d + "/patch.diff"], cwd=pat)
        out["patch_applies"] = p.returncode == 0
        if p.returncode != 0:
            print("PATCH DOES NOT APPLY", p.stdout[-500:], p.stderr[-500:])
            return out
        if os.path.exists(d + "/demo.py"):
            for name, t in (("clean", clean), ("patched", pat)):
                r = sh([PY, d + "/demo.py"], cwd=t, env=dict(os.environ, PYTHONPATH=t + "/src"), timeout=900)
                out["demo_" + name] = r.returncode
                print(f"demo on {name}: exit {r.returncode} {(r.stdout + r.stderr).strip().splitlines()[-1:]}" )
        if suite:
            r = sh([PY, "-m", "pytest", "-q", "-p", "no:cacheprovider", "-n", "8", "--deselect", KNOWN_FAIL, "tests"], cwd=pat,
                   env=dict(os.environ, PYTHONPATH=pat + "/src"), timeout=3000)
            out["suite_passes"] = r.returncode == 0
            print("suite on patched:", "PASS" if r.returncode == 0 else "FAIL", r.stdout.strip().splitlines()[-1:])
        for c in checks:
            t0 = time.time()
            cmd = [PY, "/verif/check.py", c, "--tier", tier] + (["--seeds", seeds] if seeds else [])
            r = sh(cmd, cwd=tmp, env=dict(os.environ, VERIF_REPO_SRC=pat + "/src"), timeout=7200)
            lines = [ln for ln in r.stdout.splitlines() if ln.startswith(("VIOLATION", "  class", "HARNESS", "KNOWN"))]
            out["checks"][c] = {"exit": r.returncode, "wall_s": round(time.time() - t0, 1), "lines": lines[:6]}
            print(f"check {c}: exit {r.returncode} in {time.time() - t0:.0f}s")
            for ln in lines[:4]:
                print("   ", ln[:300])
    finally:
        shutil.rmtree(tmp, ignore_errors=True)
    return out


if __name__ == "__main__":
    res = main()
    print(json.dumps({k: v for k, v in res.items() if k != "dir"}))
