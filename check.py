#!/venv/bin/python
"""CLI:  check.py <id> --tier quick|thorough   |  check.py <id> --replay <file>  |  check.py setup | selftest"""

import argparse
import os
import sys

sys.path.insert(0, os.path.dirname(os.path.abspath(__file__)))
sys.dont_write_bytecode = True
# one simulated run per worker process: numerical libraries must not start thread pools of their own
for _v in ("OMP_NUM_THREADS", "OPENBLAS_NUM_THREADS", "MKL_NUM_THREADS", "NUMEXPR_NUM_THREADS"):
    os.environ.setdefault(_v, "1")
if os.environ.get("VERIF_REPO_SRC"):
    # sensitivity runs only (tools/mutants.py): import classy_blocks from a scratch copy.
    # Registered commands never set this; they use /repo/src through the editable install.
    sys.path.insert(0, os.environ["VERIF_REPO_SRC"])


def main() -> int:
    ap = argparse.ArgumentParser()
    ap.add_argument("what")
    ap.add_argument("--tier", default=os.environ.get("VERIF_TIER", "quick"))
    ap.add_argument("--replay")
    ap.add_argument("--quiet", action="store_true")
    ap.add_argument("--seed", type=int, default=None)
    ap.add_argument("--seeds", type=int, default=None, help="override number of seeds")
    a = ap.parse_args()

    import warnings

    warnings.simplefilter("ignore")
    from sim import runner

    runner.reexec_with_hashseed("0")
    seed = a.seed if a.seed is not None else int(os.environ.get("VERIF_SEED", "20261003"))

    if a.what == "setup":
        from sim import selftest

        return selftest.setup()
    if a.what == "transparency":
        from sim import selftest

        return selftest.transparency()
    if a.what == "selftest":
        from sim import selftest

        return selftest.main(seed)

    from sim import registry

    chk = registry.CHECKS.get(a.what)
    if chk is None:
        print("unknown check", a.what)
        return 2
    if a.replay:
        return chk.replay(a.replay, a.quiet)
    if a.tier not in ("quick", "thorough"):
        print("unknown tier", a.tier)
        return 2
    return chk.run(a.tier, seed, a.seeds)


if __name__ == "__main__":
    try:
        rc = main()
    except SystemExit:
        raise
    except BaseException as e:  # never exit 0 or 1 on a harness crash
        import traceback

        traceback.print_exc()
        print(f"HARNESS-ERROR: {e!r}")
        rc = 2
    sys.exit(rc)
