#!/usr/bin/env python3
"""Regenerates MANIFEST.json from one table (so it is always schema-valid)."""
import json, sys

PY = "/venv/bin/python"
NA = {
 "C03": "Chop.calculate and the grading relations are closed-form functions of (length, two parameters): no schedule, clock, fault, retained state or interleaving can change the result; input generation / proof is the right tool, not a simulator.",
 "C07": "Edge entries are a deterministic function of the operations' edge frames and add order; de-duplication uses lists (no hashed container), no I/O-fault semantics are stated.",
 "C08": "Arc conversions are trigonometry on the call's arguments; pure function.",
 "C09": "Transforms and copies are pure geometry on the object they are called on; the one address-related clause (copied hemisphere's geometry name) is exercised under C06.",
 "C10": "Face permutations and side/edge/corner tables are index arithmetic; sequences of them are compositions of pure maps.",
 "C11": "Shape constructors and their chop-index lists are pure functions of constructor arguments; the only nondeterministic surface they pass through (propagation) is decided under C02, whose workload includes shape-built assemblies.",
 "C14": "The quality measure is a pure function of eight (four) points.",
 "C15": "Laplacian smoothing is a fixed-order sweep over lists; boundary detection is order-free; nothing for a scheduler or fault injector to own.",
 "C16": "Curve queries are functions of the defining points and parameters.",
 "C17": "Clamp position functions and link transforms are pure; the single RNG-dependent clause (PlaneClamp's in-plane basis) runs inside C13's simulation where the simulator owns np.random.",
 "C18": "Finders are exact scans of a list; the reorienter's identity-ordered triangle set is sorted by alignment before use, so for viewpoints in general position order cannot matter (confirmed on 150 hexahedra x 10 orders).",
 "C19": "Grid/slice/core/shell addressing is list indexing fixed at construction; pure.",
 "C20": "Argument validation is a predicate on the arguments of one call; pure.",
}
CHECKS = json.load(open("/verif/checks_table.json")) if __import__("os").path.exists("/verif/checks_table.json") else []

man = {
 "version": 1,
 "setup_cmd": f"cd /verif && {PY} check.py setup",
 "hooks": {
  "guard": "CLASSY_BLOCKS_VERIF",
  "enable": "no source hook exists: every seam (set, open, id, time, scipy.optimize.minimize, np.random) is injected from /verif into the module globals of the imported classy_blocks package at run time; the guard variable is nominal",
  "baseline_off_cmd": "cd /repo && /venv/bin/python -m pytest -ra -q -p no:cacheprovider --timeout=900 --continue-on-collection-errors",
  "source_commits": [],
  "add_only": True,
 },
 "engines": [],
 "checks": [],
 "notes": "Deterministic simulation with fault injection; see DESIGN.md. 7 claimed, 13 not applicable (pure functions of their inputs).",
 "not_applicable": [{"property_id": k, "reason": v} for k, v in sorted(NA.items())],
}
tab = CHECKS
engines = {}
for c in tab:
    pid = c["property_id"]
    man["checks"].append({
        "property_id": pid,
        "quick_cmd": f"cd /verif && {PY} check.py {pid} --tier quick",
        "thorough_cmd": f"cd /verif && {PY} check.py {pid} --tier thorough",
        "evidence_file": f"/verif/evidence/{pid}.json",
        "replay_cmd_template": f"cd /verif && {PY} check.py {pid} --replay {{path}}",
        "engine": c["engine"],
        "level_claimed": {"category": c["level"], "text": c["text"], "design_ref": c["design_ref"]},
        "level_note": c["note"],
        "technique": c["technique"],
    })
    engines.setdefault(c["engine"], {"name": c["engine"], "path": c["engine_path"], "serves_properties": [], "kind_free_text": c["engine_kind"]})["serves_properties"].append(pid)
man["engines"] = list(engines.values())
claimed = {c["property_id"] for c in tab}
pending = [p for p in ["C01","C02","C04","C05","C06","C12","C13"] if p not in claimed]
if pending:
    man["notes"] += " Checks still being built (neither claimed nor not-applicable yet): " + ", ".join(pending) + "."
json.dump(man, open("/verif/MANIFEST.json", "w"), indent=1)
print("checks:", sorted(claimed), "pending:", pending)
