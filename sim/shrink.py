"""Greedy minimisation of a replay (program + schedules + faults): keep a simpler
candidate only if the same violation class persists when it is re-executed."""

import time
from typing import Any, Callable, Dict, Iterable


def minimise(replay: Dict[str, Any], candidates: Callable[[Dict[str, Any]], Iterable[Dict[str, Any]]],
             still_fails: Callable[[Dict[str, Any]], bool], budget_s: float = 20.0, max_steps: int = 400) -> Dict[str, Any]:
    t0 = time.time()
    cur = replay
    steps = 0
    progress = True
    while progress and time.time() - t0 < budget_s and steps < max_steps:
        progress = False
        for cand in candidates(cur):
            steps += 1
            if time.time() - t0 > budget_s or steps > max_steps:
                break
            try:
                ok = still_fails(cand)
            except Exception:
                ok = False
            if ok:
                cur = cand
                progress = True
                break
    cur = dict(cur)
    cur["minimised"] = {"steps_tried": steps, "wall_s": round(time.time() - t0, 2)}
    return cur
