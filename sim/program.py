"""Workloads are explicit programs: JSON-serialisable lists of operations on the public
API.  This interpreter executes one against the real library (under whatever seams are
installed); reference models interpret the same list independently."""

from typing import Any, Dict, List, Optional

import numpy as np


class ProgramError(Exception):
    """The program itself is malformed (harness bug, never a verdict)."""


MESH_LEVEL = ("geometry", "add_geometry", "add", "delete", "delete_sub", "merge", "default_patch", "modify_patch", "setting")


class Interp:
    def __init__(self, program: Dict[str, Any]):
        import classy_blocks as cb

        self.cb = cb
        self.program = program
        self.points: Dict[str, List[float]] = program.get("points", {})
        self.env: Dict[str, Any] = {}
        self.mesh = cb.Mesh()
        self.added: List[str] = []  # names in add order
        self.tried: List[str] = []  # outcomes of try_write steps
        self.mesh_log: List[Dict[str, Any]] = []  # mesh-level declarations so far (for remesh)
        self.trace: List[str] = []
        self.hooks: Dict[str, Any] = {}  # engine callbacks: before_<op> / after_<op>

    # -- helpers ------------------------------------------------------------------------
    def pt(self, p):
        """a point as the script passes it: list (default), tuple, numpy array or a list of ints where the
        coordinates are whole numbers - per program (`point_type`)"""
        v = list(self.points[p]) if isinstance(p, str) else list(p)
        kind = self.program.get("point_type", "list")
        if kind == "tuple":
            return tuple(v)
        if kind == "array":
            return np.array(v, dtype=float)
        if kind == "int_where_whole":
            return [int(x) if float(x).is_integer() else x for x in v]
        return v

    def edge_data(self, e: Dict[str, Any]):
        cb = self.cb
        k = e["kind"]
        if k == "arc":
            return cb.Arc(self.pt(e["data"]))
        if k == "origin":
            return cb.Origin(self.pt(e["data"]), e.get("flatness", 1))
        if k == "angle":
            return cb.Angle(e["angle"], e["axis"])
        if k == "spline":
            return cb.Spline([self.pt(p) for p in e["data"]])
        if k == "polyline":
            return cb.PolyLine([self.pt(p) for p in e["data"]])
        if k == "project":
            return cb.Project(e["label"])
        if k == "line":
            return None
        raise ProgramError("edge kind " + k)

    def set_edge(self, op_obj, c1: int, c2: int, data) -> None:
        """edge between local corners c1 -> c2 of an operation (data given in that sense)"""
        lo, hi = min(c1, c2), max(c1, c2)
        if hi < 4:
            if c2 == (c1 + 1) % 4:
                op_obj.bottom_face.add_edge(c1, data)
            else:
                raise ProgramError(f"bottom edge must be given as i -> i+1: {c1}->{c2}")
        elif lo >= 4:
            if c2 - 4 == (c1 - 4 + 1) % 4:
                op_obj.top_face.add_edge(c1 - 4, data)
            else:
                raise ProgramError(f"top edge must be given as i -> i+1: {c1}->{c2}")
        elif hi == lo + 4 and c1 == lo:
            if data is None:
                from classy_blocks.construct.edges import Line

                data = Line()
            op_obj.add_side_edge(lo, data)
        else:
            raise ProgramError(f"not an edge: {c1}->{c2}")

    # -- execution ------------------------------------------------------------------------
    def run(self, ops: Optional[List[Dict[str, Any]]] = None) -> None:
        for i, op in enumerate(ops if ops is not None else self.program["ops"]):
            self.step(i, op)

    def step(self, i: int, op: Dict[str, Any]) -> None:
        name = op["op"]
        fn = getattr(self, "op_" + name, None)
        if fn is None:
            raise ProgramError("unknown op " + name)
        h = self.hooks.get("before")
        if h:
            h(i, op)
        fn(op)
        if name in MESH_LEVEL:
            self.mesh_log.append(op)
        h = self.hooks.get("after")
        if h:
            h(i, op)

    # construction
    def op_hex(self, op) -> None:
        cb = self.cb
        pts = [self.pt(p) for p in op["corners"]]
        if op.get("base_face_of"):
            # built on another operation's own top face: the two share that Face object and its points
            loft = cb.Loft(self.env[op["base_face_of"]].top_face, cb.Face(pts[4:]))
        else:
            loft = cb.Loft(cb.Face(pts[:4]), cb.Face(pts[4:]))
        for e in op.get("edges", []):
            if e["kind"] == "arc" and e.get("as") == "oncurve":
                # the same circular arc, declared as an edge snapped to a parametric circle
                data = self.oncurve_from_arc(pts[e["c1"]], pts[e["c2"]], self.pt(e["data"]))
            else:
                data = self.edge_data(e)
            self.set_edge(loft, e["c1"], e["c2"], data)
        self.env[op["name"]] = loft

    def oncurve_from_arc(self, p, q, m):
        cb = self.cb
        a, b, c = (np.array(x, dtype=float) for x in (p, m, q))
        ab, ac = b - a, c - a
        n = np.cross(ab, ac)
        nn = float(np.dot(n, n))
        centre = a + (float(np.dot(ac, ac)) * np.cross(n, ab) + float(np.dot(ab, ab)) * np.cross(ac, n)) / (2 * nn)
        return cb.OnCurve(cb.CircleCurve(centre, a, n))

    def op_box(self, op) -> None:
        self.env[op["name"]] = self.cb.Box(op["p1"], op["p2"])

    def op_extrude(self, op) -> None:
        cb = self.cb
        self.env[op["name"]] = cb.Extrude(cb.Face([self.pt(p) for p in op["face"]]), op["amount"])

    def op_revolve(self, op) -> None:
        cb = self.cb
        self.env[op["name"]] = cb.Revolve(cb.Face([self.pt(p) for p in op["face"]]), op["angle"], op["axis"], op["origin"])

    def op_wedge(self, op) -> None:
        cb = self.cb
        self.env[op["name"]] = cb.Wedge(cb.Face([self.pt(p) for p in op["face"]]), op.get("angle", 0.0349))

    def op_shape(self, op) -> None:
        cb = self.cb
        k = op["kind"]
        a = op["args"]
        if k == "cylinder":
            s = cb.Cylinder(a["p1"], a["p2"], a["r"])
        elif k == "semicylinder":
            s = cb.SemiCylinder(a["p1"], a["p2"], a["r"])
        elif k == "frustum":
            s = cb.Frustum(a["p1"], a["p2"], a["r1"], a["r2"])
        elif k == "elbow":
            s = cb.Elbow(a["c"], a["r1"], a["n1"], a["angle"], a["arc_c"], a["axis"], a["r2"])
        elif k == "ring":
            s = cb.ExtrudedRing(a["p1"], a["p2"], a["r_out"], a["r_in"], a.get("n", 8))
        elif k == "hemisphere":
            s = cb.Hemisphere(a["c"], a["r"], a["n"])
        elif k == "revolvedring":
            s = cb.RevolvedRing(a["p1"], a["p2"], cb.Face([self.pt(p) for p in a["face"]]), a.get("n", 8))
        elif k == "stack":
            s = cb.ExtrudedStack(cb.Grid(a["p1"], a["p2"], a["n1"], a["n2"]), a["amount"], a["repeats"])
        elif k == "tstack":
            base = cb.Grid(a["p1"], a["p2"], a["n1"], a["n2"])
            if a.get("lift"):
                base.translate([0, 0, a["lift"]])
            tfs = []
            if a.get("scale"):
                tfs.append(cb.Scaling(a["scale"], a.get("origin", [0, 0, 0])))
            if a.get("shift"):
                tfs.append(cb.Translation(a["shift"]))
            s = cb.TransformedStack(base, tfs, a["repeats"])
        elif k == "tjoint":
            s = cb.TJoint(a["start"], a["center"], a["r"])
        elif k == "ljoint":
            s = cb.LJoint(a["start"], a["center"], a["r"])
        else:
            raise ProgramError("shape kind " + k)
        self.env[op["name"]] = s

    def op_zoo(self, op) -> None:
        """the less common entities of the public API; `name` is bound to the entity (or, for entities made of
        several independent operations, `name`, `name_b`, ... as the kind says)"""
        cb = self.cb
        k = op["kind"]
        a = op["args"]
        nm = op["name"]

        def sketch(sk):
            t, s = sk["kind"], sk
            if t == "onecore":
                return cb.OneCoreDisk(s["c"], s["r"], s["n"])
            if t == "fourcore":
                return cb.FourCoreDisk(s["c"], s["r"], s["n"])
            if t == "halfdisk":
                return cb.HalfDisk(s["c"], s["r"], s["n"])
            if t == "wrapped":
                return cb.WrappedDisk(s["c"], s["corner"], s["radius"], s["n"])
            if t == "oval":
                return cb.Oval(s["c"], s["c2"], s["n"], s["radius"])
            if t == "grid":
                return cb.Grid(s["p1"], s["p2"], s["n1"], s["n2"])
            if t == "splinedisk":
                return cb.SplineDisk(s["c"], s["k1"], s["k2"], s["s1"], s["s2"])
            if t == "halfsplinedisk":
                return cb.HalfSplineDisk(s["c"], s["k1"], s["k2"], s["s1"], s["s2"])
            if t == "quartersplinedisk":
                return cb.QuarterSplineDisk(s["c"], s["k1"], s["k2"], s["s1"], s["s2"])
            if t == "splinering":
                return cb.SplineRing(s["c"], s["k1"], s["k2"], s["s1"], s["s2"], s["w1"], s["w2"])
            if t == "mapped":
                return cb.MappedSketch([self.pt(p) for p in s["positions"]], [list(q) for q in s["quads"]])
            raise ProgramError("sketch kind " + t)

        if k == "elbow":
            self.env[nm] = cb.Elbow(a["c"], a["r1"], a["n1"], a["angle"], a["arc_c"], a["axis"], a["r2"])
        elif k == "semicylinder":
            self.env[nm] = cb.SemiCylinder(a["p1"], a["p2"], a["r"])
        elif k == "revolvedring":
            self.env[nm] = cb.RevolvedRing(a["p1"], a["p2"], cb.Face([self.pt(p) for p in a["face"]]), a.get("n", 8))
        elif k == "rstack":
            self.env[nm] = cb.RevolvedStack(sketch(a["sketch"]), a["angle"], a["axis"], a["origin"], a["repeats"])
        elif k == "estack":
            self.env[nm] = cb.ExtrudedStack(sketch(a["sketch"]), a["amount"], a["repeats"])
        elif k == "extruded":
            self.env[nm] = cb.ExtrudedShape(sketch(a["sketch"]), a["amount"])
        elif k == "revolved":
            self.env[nm] = cb.RevolvedShape(sketch(a["sketch"]), a["angle"], a["axis"], a["origin"])
        elif k == "lofted":
            s1 = sketch(a["sketch"])
            s2 = s1.copy().translate(a["shift"])
            if a.get("scale"):
                s2.scale(a["scale"])
            if a.get("twist"):
                s2.rotate(a["twist"], a["shift"])
            mid = None
            if a.get("mid"):
                mid = s1.copy().translate([x * 0.5 for x in a["shift"]]).scale(a["mid"])
            self.env[nm] = cb.LoftedShape(s1, s2, mid)
        elif k == "shell":
            base = cb.Box(a["p1"], a["p2"])
            self.env[nm + "_base"] = base
            self.env[nm] = cb.Shell([base.get_face(s) for s in a["sides"]], a["amount"])
        elif k == "connector":
            b1 = cb.Box(a["p1"], a["p2"])
            b2 = cb.Box(a["q1"], a["q2"])
            if a.get("rot"):
                b2.rotate(a["rot"], a["rot_axis"])
            if a.get("rot_a"):
                b1.rotate(a["rot_a"], a["rot_a_axis"])
            self.env[nm + "_a"], self.env[nm + "_b"] = b1, b2
            self.env[nm] = cb.Connector(b1, b2)
        elif k == "wedge":
            self.env[nm] = cb.Wedge(cb.Face([self.pt(p) for p in a["face"]]), a.get("angle"))
        elif k == "revolve":
            self.env[nm] = cb.Revolve(cb.Face([self.pt(p) for p in a["face"]]), a["angle"], a["axis"], a["origin"])
        elif k == "njoint":
            self.env[nm] = cb.NJoint(a["start"], a["center"], a["r"], a["branches"])
        else:
            raise ProgramError("zoo kind " + k)
        for tf in op.get("transforms", []):
            ent = self.env[nm]
            if tf["t"] == "translate":
                ent.translate(tf["d"])
            elif tf["t"] == "rotate":
                ent.rotate(tf["angle"], tf["axis"], tf.get("origin"))
            elif tf["t"] == "scale":
                ent.scale(tf["ratio"], tf.get("origin"))

    def op_chain(self, op) -> None:
        cb = self.cb
        src = self.env[op["source"]]
        k = op["kind"]
        a = op.get("args", {})
        if k == "cylinder":
            s = cb.Cylinder.chain(src, a["length"], a.get("start_face", False))
        elif k == "frustum":
            s = cb.Frustum.chain(src, a["length"], a["r2"], a.get("start_face", False))
        elif k == "hemisphere":
            s = cb.Hemisphere.chain(src, a.get("start_face", False))
        elif k == "ring_expand":
            s = cb.ExtrudedRing.expand(src, a["thickness"])
        elif k == "ring_contract":
            s = cb.ExtrudedRing.contract(src, a["r_in"])
        elif k == "ring_chain":
            s = cb.ExtrudedRing.chain(src, a["length"], a.get("start_face", False))
        elif k == "elbow":
            s = cb.Elbow.chain(src, a["angle"], a["c"], a["axis"], a["r2"], a.get("start_face", False))
        else:
            raise ProgramError("chain kind " + k)
        self.env[op["name"]] = s

    def op_copy(self, op) -> None:
        self.env[op["name"]] = self.env[op["source"]].copy()

    def op_translate(self, op) -> None:
        self.env[op["target"]].translate(op["d"])

    def op_translate_op(self, op) -> None:
        self.env[op["target"]].translate(op["d"])

    def op_rotate(self, op) -> None:
        self.env[op["target"]].rotate(op["angle"], op["axis"], op.get("origin"))

    def op_settle(self, op) -> None:
        """takes an entity through a scratch mesh of its own: assemble, move the vertices at the given
        positions, backport; the scratch mesh is then dropped and the entity used as it stands"""
        scratch = self.cb.Mesh()
        scratch.add(self.env[op["target"]])
        scratch.assemble()
        for mv in op["moves"]:
            vx = min(scratch.vertices, key=lambda v_: sum((float(v_.position[k]) - mv["pos"][k]) ** 2 for k in range(3)))
            vx.move_to(mv["to"])
            scratch.backport()
        scratch.clear()

    def op_invert(self, op) -> None:
        self.env[op["target"]].invert()

    def op_mirror(self, op) -> None:
        self.env[op["target"]].mirror(op["normal"], op.get("origin"))

    def op_scale(self, op) -> None:
        self.env[op["target"]].scale(op["ratio"], op.get("origin"))

    def op_edge(self, op) -> None:
        self.set_edge(self.env[op["target"]], op["c1"], op["c2"], self.edge_data(op))

    # attributes
    def op_chop(self, op) -> None:
        if op.get("late"):
            # a correction made on the assembled mesh: the chop goes to the operation's block
            from classy_blocks.grading.chop import Chop

            self.mesh.blocks[self.added.index(op["target"])].chop(op["axis"], Chop(**op["args"]))
            return
        self.env[op["target"]].chop(op["axis"], **op["args"])

    def op_shape_chop(self, op) -> None:
        s = self.env[op["target"]]
        getattr(s, "chop_" + op["which"])(**op["args"])

    def op_patch(self, op) -> None:
        self.env[op["target"]].set_patch(op["side"], op["name"])

    def op_stack_chop(self, op) -> None:
        """Stack.chop: one chop along the stack for every tier"""
        self.env[op["target"]].chop(**op["args"])

    def op_sub_chop(self, op) -> None:
        """chop one operation of a multi-operation entity"""
        self.env[op["target"]].operations[op["index"]].chop(op["axis"], **op["args"])

    def op_sub_patch(self, op) -> None:
        self.env[op["target"]].operations[op["index"]].set_patch(op["side"], op["name"])

    def op_shape_patch(self, op) -> None:
        s = self.env[op["target"]]
        getattr(s, "set_" + op["which"] + "_patch")(op["name"])

    def op_zone(self, op) -> None:
        self.env[op["target"]].set_cell_zone(op["name"])

    def op_project_side(self, op) -> None:
        self.env[op["target"]].project_side(op["side"], op["label"], op.get("edges", False), op.get("points", False))

    def op_project_edge(self, op) -> None:
        self.env[op["target"]].project_edge(op["c1"], op["c2"], op["label"])

    def op_project_corner(self, op) -> None:
        self.env[op["target"]].project_corner(op["corner"], op["label"])

    # mesh-level
    def op_geometry(self, op) -> None:
        self.mesh.add_geometry({op["name"]: list(op["props"])})

    def op_add_geometry(self, op) -> None:
        """a geometry declared in the middle of a history (same call; named apart so that traces show it)"""
        self.mesh.add_geometry({op["name"]: list(op["props"])})

    def op_add(self, op) -> None:
        self.mesh.add(self.env[op["target"]])
        self.added.append(op["target"])

    def op_delete(self, op) -> None:
        self.mesh.delete(self.env[op["target"]])

    def op_delete_sub(self, op) -> None:
        """delete one operation of a multi-operation entity (shape)"""
        self.mesh.delete(self.env[op["target"]].operations[op["index"]])

    def op_merge(self, op) -> None:
        self.mesh.merge_patches(op["master"], op["slave"])

    def op_default_patch(self, op) -> None:
        self.mesh.set_default_patch(op["name"], op["kind"])

    def op_modify_patch(self, op) -> None:
        self.mesh.modify_patch(op["name"], op["kind"], op.get("settings"))

    def op_setting(self, op) -> None:
        self.mesh.settings[op["key"]] = op["value"]

    def op_remesh(self, op) -> None:
        """the same entities, as they stand, go into a second Mesh object with the same mesh-level
        declarations in the same order; the first Mesh is left alone"""
        log, self.mesh_log = self.mesh_log, []
        self.first_mesh = self.mesh
        self.mesh = self.cb.Mesh()
        self.added = []
        for o in log:
            getattr(self, "op_" + o["op"])(o)
            self.mesh_log.append(o)

    def op_assemble(self, op) -> None:
        self.mesh.assemble()

    def op_clear(self, op) -> None:
        self.mesh.clear()

    def op_backport(self, op) -> None:
        self.mesh.backport()

    def op_restore_vertices(self, op) -> None:
        """puts every vertex moved by move_vertex back to exactly where it was"""
        for index, pos in getattr(self, "_saved_vertices", {}).items():
            self.mesh.vertices[index].move_to(pos)
        self._saved_vertices = {}

    def op_move_vertex(self, op) -> None:
        saved = getattr(self, "_saved_vertices", None)
        if saved is None:
            saved = self._saved_vertices = {}
        if "point" in op:
            # addressed by the program's point id (independent of vertex numbering): the vertex whose
            # original position is that point
            want = self.points[op["point"]]
            best, bd = None, None
            for i, vx in enumerate(self.mesh.vertices):
                pos = saved.get(i, vx.position)
                dd = sum((float(pos[k]) - want[k]) ** 2 for k in range(3))
                if bd is None or dd < bd:
                    best, bd = i, dd
            if best is None or bd > 1e-12:
                raise KeyError(f"move_vertex: no vertex at point {op['point']}")
            op = dict(op, index=best)
        v = self.mesh.vertices[op["index"]]
        if op["index"] not in saved:
            saved[op["index"]] = [float(x) for x in v.position]
        if "to" in op:
            v.move_to(op["to"])
        else:
            v.translate(op["d"])

    def op_write(self, op) -> None:
        self.mesh.write(op["path"], op.get("debug"))

    def op_try_write(self, op) -> None:
        """a write whose failure the script survives (it is recorded); the script goes on"""
        try:
            self.mesh.write(op["path"], op.get("debug"))
            self.tried.append("ok")
        except Exception as e:  # noqa: BLE001 - any failure is an outcome of this step
            self.tried.append("exc:" + type(e).__name__)

    def op_grade(self, op) -> None:
        self.mesh.grade()
