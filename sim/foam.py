"""Independent reader for the subset of OpenFOAM dictionary syntax that a blockMeshDict uses
(written from the blockMesh user guide; imports nothing from classy_blocks), plus a reader
for legacy ASCII VTK unstructured grids.  Anything it does not understand is an error:
well-formedness is part of what is checked."""

import re
from typing import Any, Dict, List, Optional, Tuple


class FoamSyntaxError(Exception):
    pass


_TOKEN = re.compile(r'\s+|//[^\n]*|/\*.*?\*/|"(?:[^"\\]|\\.)*"|[(){};]|[^\s(){};"]+', re.S)


def tokenize(text: str) -> List[str]:
    out = []
    pos = 0
    n = len(text)
    while pos < n:
        m = _TOKEN.match(text, pos)
        if m is None or m.end() == pos:
            raise FoamSyntaxError(f"cannot tokenize at offset {pos}: {text[pos:pos+30]!r}")
        tok = m.group(0)
        pos = m.end()
        if tok[0].isspace() or tok.startswith("//") or tok.startswith("/*"):
            continue
        out.append(tok)
    return out


class _P:
    def __init__(self, toks: List[str]):
        self.t = toks
        self.i = 0

    def peek(self) -> Optional[str]:
        return self.t[self.i] if self.i < len(self.t) else None

    def next(self) -> str:
        if self.i >= len(self.t):
            raise FoamSyntaxError("unexpected end of file")
        tok = self.t[self.i]
        self.i += 1
        return tok

    def parse_list(self) -> list:
        """after '(' has been consumed"""
        items: list = []
        while True:
            tok = self.next()
            if tok == ")":
                return items
            if tok == "(":
                items.append(self.parse_list())
            elif tok == "{":
                items.append(self.parse_dict("}"))
            elif tok in ("}", ";"):
                raise FoamSyntaxError(f"unexpected {tok!r} inside a list")
            else:
                items.append(tok)

    def parse_dict(self, closer: Optional[str]) -> List[Tuple[str, Any]]:
        """entries until closer (None = end of file); returns ordered (key, value) pairs.
        value: list of values for 'key v1 v2 ... ;', or ('dict', entries)"""
        entries: List[Tuple[str, Any]] = []
        while True:
            tok = self.peek()
            if tok is None:
                if closer is None:
                    return entries
                raise FoamSyntaxError("missing " + closer)
            if tok == closer:
                self.next()
                return entries
            if tok == ";":
                # a stray ';' after a '}' is legal
                self.next()
                continue
            if tok in "(){}":
                raise FoamSyntaxError(f"unexpected {tok!r} where a keyword was expected (token {self.i})")
            key = self.next()
            if self.peek() == "{":
                self.next()
                entries.append((key, ("dict", self.parse_dict("}"))))
                continue
            values: list = []
            while True:
                tok = self.next()
                if tok == ";":
                    break
                if tok == "(":
                    values.append(self.parse_list())
                elif tok in ("{", "}", ")"):
                    raise FoamSyntaxError(f"unexpected {tok!r} in the value of {key}")
                else:
                    values.append(tok)
            entries.append((key, values))


def parse_generic(text: str) -> List[Tuple[str, Any]]:
    return _P(tokenize(text)).parse_dict(None)


def _num(tok: Any) -> float:
    if isinstance(tok, list):
        raise FoamSyntaxError(f"number expected, list found: {tok}")
    try:
        return float(tok)
    except ValueError as e:
        raise FoamSyntaxError(f"number expected: {tok!r}") from e


def _int(tok: Any) -> int:
    if isinstance(tok, list) or not re.fullmatch(r"-?\d+", tok):
        raise FoamSyntaxError(f"integer expected: {tok!r}")
    return int(tok)


def _vec(item: Any) -> Tuple[float, float, float]:
    if not isinstance(item, list) or len(item) != 3:
        raise FoamSyntaxError(f"vector expected: {item!r}")
    return (_num(item[0]), _num(item[1]), _num(item[2]))


def _words(item: Any) -> List[str]:
    if not isinstance(item, list) or any(isinstance(x, list) for x in item):
        raise FoamSyntaxError(f"word list expected: {item!r}")
    return list(item)


def _grading_entry(item: Any):
    """one expansion spec: a number, or a list of (fraction nCells expansion) triples.
    Returned as list of (length fraction, count fraction or count, expansion)."""
    if isinstance(item, list):
        out = []
        if len(item) == 0:
            raise FoamSyntaxError("empty multi-grading")
        for tri in item:
            if not isinstance(tri, list) or len(tri) != 3:
                raise FoamSyntaxError(f"multi-grading triple expected: {tri!r}")
            out.append((_num(tri[0]), _num(tri[1]), _num(tri[2])))
        return out
    return [(1.0, 1.0, _num(item))]


class BlockMeshDict:
    """Structured content of a parsed blockMeshDict."""

    def __init__(self) -> None:
        self.header: Dict[str, str] = {}
        self.settings: Dict[str, str] = {}
        self.geometry: Dict[str, List[Tuple[str, str]]] = {}
        self.vertices: List[Tuple[Tuple[float, float, float], List[str]]] = []
        self.blocks: List[Dict[str, Any]] = []
        self.edges: List[Dict[str, Any]] = []
        self.faces: List[Tuple[Tuple[int, ...], str]] = []
        self.boundary: List[Dict[str, Any]] = []
        self.default_patch: Optional[Dict[str, str]] = None
        self.merge_pairs: List[Tuple[str, str]] = []
        self.sections: List[str] = []


def parse_blockmeshdict(text: str) -> BlockMeshDict:
    entries = parse_generic(text)
    d = BlockMeshDict()
    seen = set()
    for key, val in entries:
        d.sections.append(key)
        if key in seen:
            raise FoamSyntaxError(f"duplicate top-level entry {key}")
        seen.add(key)
        if key == "FoamFile":
            if not (isinstance(val, tuple) and val[0] == "dict"):
                raise FoamSyntaxError("FoamFile must be a dictionary")
            for k, v in val[1]:
                d.header[k] = " ".join(map(str, v))
        elif key == "geometry":
            if not (isinstance(val, tuple) and val[0] == "dict"):
                raise FoamSyntaxError("geometry must be a dictionary")
            for name, sub in val[1]:
                if not (isinstance(sub, tuple) and sub[0] == "dict"):
                    raise FoamSyntaxError(f"geometry {name} must be a dictionary")
                if name in d.geometry:
                    raise FoamSyntaxError(f"geometry {name} defined twice")
                props = []
                for k, v in sub[1]:
                    props.append((k, _flat(v)))
                d.geometry[name] = props
        elif key == "vertices":
            d.vertices = _parse_vertices(_single_list(key, val))
        elif key == "blocks":
            d.blocks = _parse_blocks(_single_list(key, val))
        elif key == "edges":
            d.edges = _parse_edges(_single_list(key, val))
        elif key == "faces":
            d.faces = _parse_faces(_single_list(key, val))
        elif key in ("boundary", "patches"):
            d.boundary = _parse_boundary(_single_list(key, val))
        elif key == "defaultPatch":
            if not (isinstance(val, tuple) and val[0] == "dict"):
                raise FoamSyntaxError("defaultPatch must be a dictionary")
            dp = {}
            for k, v in val[1]:
                dp[k] = " ".join(map(str, v))
            d.default_patch = dp
        elif key == "mergePatchPairs":
            for pair in _single_list(key, val):
                w = _words(pair)
                if len(w) != 2:
                    raise FoamSyntaxError(f"mergePatchPairs entry must be a pair: {pair}")
                d.merge_pairs.append((w[0], w[1]))
        else:
            if isinstance(val, tuple):
                raise FoamSyntaxError(f"unknown dictionary entry {key}")
            d.settings[key] = _flat(val)
    for req in ("vertices", "blocks", "edges", "boundary"):
        if req not in seen:
            raise FoamSyntaxError(f"missing section {req}")
    return d


def _flat(v: Any) -> str:
    if isinstance(v, list):
        parts = []
        for x in v:
            if isinstance(x, list):
                parts.append("(" + _flat(x) + ")")
            else:
                parts.append(str(x))
        return " ".join(parts)
    return str(v)


def _single_list(key: str, val: Any) -> list:
    if isinstance(val, tuple) or len(val) != 1 or not isinstance(val[0], list):
        raise FoamSyntaxError(f"{key} must be a single list")
    return val[0]


def _parse_vertices(items: list):
    out = []
    i = 0
    while i < len(items):
        it = items[i]
        if it == "project":
            if i + 2 >= len(items):
                raise FoamSyntaxError("truncated projected vertex")
            out.append((_vec(items[i + 1]), _words(items[i + 2])))
            i += 3
        elif isinstance(it, list):
            out.append((_vec(it), []))
            i += 1
        else:
            raise FoamSyntaxError(f"unexpected token in vertices: {it!r}")
    return out


def _parse_blocks(items: list):
    out = []
    i = 0
    while i < len(items):
        if items[i] != "hex":
            raise FoamSyntaxError(f"'hex' expected in blocks, got {items[i]!r}")
        i += 1
        idx = [_int(x) for x in _words(items[i])]
        if len(idx) != 8:
            raise FoamSyntaxError(f"hex needs 8 vertex labels: {idx}")
        i += 1
        zone = ""
        if not isinstance(items[i], list):
            zone = items[i]
            i += 1
        counts = [_int(x) for x in _words(items[i])]
        if len(counts) != 3:
            raise FoamSyntaxError(f"hex needs 3 cell counts: {counts}")
        i += 1
        kind = items[i]
        if kind not in ("simpleGrading", "edgeGrading"):
            raise FoamSyntaxError(f"grading keyword expected, got {kind!r}")
        i += 1
        spec = items[i]
        if not isinstance(spec, list):
            raise FoamSyntaxError("grading list expected")
        i += 1
        g = [_grading_entry(x) for x in spec]
        if kind == "simpleGrading":
            if len(g) != 3:
                raise FoamSyntaxError(f"simpleGrading needs 3 entries, got {len(g)}")
            grad12 = [g[0]] * 4 + [g[1]] * 4 + [g[2]] * 4
        else:
            if len(g) == 12:
                grad12 = g
            elif len(g) == 3:
                grad12 = [g[0]] * 4 + [g[1]] * 4 + [g[2]] * 4
            elif len(g) == 1:
                grad12 = g * 12
            else:
                raise FoamSyntaxError(f"edgeGrading needs 1, 3 or 12 entries, got {len(g)}")
        out.append({"idx": idx, "zone": zone, "counts": counts, "kind": kind, "gradings": grad12, "n_entries": len(g)})
    return out


def _parse_edges(items: list):
    out = []
    i = 0
    while i < len(items):
        kind = items[i]
        if isinstance(kind, list):
            raise FoamSyntaxError("edge keyword expected")
        if kind == "project":
            v1, v2 = _int(items[i + 1]), _int(items[i + 2])
            out.append({"kind": kind, "v": (v1, v2), "geometry": _words(items[i + 3])})
            i += 4
        elif kind == "arc":
            v1, v2 = _int(items[i + 1]), _int(items[i + 2])
            if items[i + 3] == "origin":
                j = i + 4
                flat = None
                if not isinstance(items[j], list):
                    flat = _num(items[j])
                    j += 1
                out.append({"kind": "arc-origin", "v": (v1, v2), "origin": _vec(items[j]), "flatness": flat})
                i = j + 1
            elif isinstance(items[i + 3], list):
                out.append({"kind": kind, "v": (v1, v2), "point": _vec(items[i + 3])})
                i += 4
            else:
                # arc v1 v2 angle (axis)
                out.append({"kind": "arc-angle", "v": (v1, v2), "angle": _num(items[i + 3]), "axis": _vec(items[i + 4])})
                i += 5
        elif kind in ("spline", "polyLine", "BSpline", "simpleSpline"):
            v1, v2 = _int(items[i + 1]), _int(items[i + 2])
            pts = items[i + 3]
            if not isinstance(pts, list):
                raise FoamSyntaxError("point list expected")
            out.append({"kind": kind, "v": (v1, v2), "points": [_vec(p) for p in pts]})
            i += 4
        elif kind == "line":
            v1, v2 = _int(items[i + 1]), _int(items[i + 2])
            out.append({"kind": kind, "v": (v1, v2)})
            i += 3
        else:
            raise FoamSyntaxError(f"unknown edge type {kind!r}")
    return out


def _parse_faces(items: list):
    out = []
    i = 0
    while i < len(items):
        if items[i] != "project":
            raise FoamSyntaxError(f"'project' expected in faces, got {items[i]!r}")
        quad = tuple(_int(x) for x in _words(items[i + 1]))
        if len(quad) != 4:
            raise FoamSyntaxError(f"face must have 4 labels: {quad}")
        label = items[i + 2]
        if isinstance(label, list):
            raise FoamSyntaxError("geometry name expected")
        out.append((quad, label))
        i += 3
    return out


def _parse_boundary(items: list):
    out = []
    i = 0
    while i < len(items):
        name = items[i]
        if isinstance(name, list):
            raise FoamSyntaxError("patch name expected")
        body = items[i + 1] if i + 1 < len(items) else None
        if not isinstance(body, list) or any(not isinstance(e, tuple) for e in body):
            raise FoamSyntaxError(f"patch {name}: dictionary expected")
        patch: Dict[str, Any] = {"name": name, "type": None, "settings": [], "faces": []}
        for k, v in body:
            if k == "type":
                if patch["type"] is not None:
                    raise FoamSyntaxError(f"patch {name}: type given twice")
                patch["type"] = _flat(v)
            elif k == "faces":
                lst = _single_list("faces", v)
                for q in lst:
                    quad = tuple(_int(x) for x in _words(q))
                    if len(quad) != 4:
                        raise FoamSyntaxError(f"patch {name}: face must have 4 labels: {quad}")
                    patch["faces"].append(quad)
            else:
                patch["settings"].append((k + " " + _flat(v)).strip())
        if patch["type"] is None:
            raise FoamSyntaxError(f"patch {name}: no type")
        out.append(patch)
        i += 2
    return out


# ---------------------------------------------------------------------------------------
# legacy VTK
# ---------------------------------------------------------------------------------------


def parse_vtk(text: str):
    try:
        return _parse_vtk(text)
    except FoamSyntaxError:
        raise
    except (ValueError, IndexError) as e:
        raise FoamSyntaxError(f"VTK: malformed ({e!r})") from e


def _parse_vtk(text: str):
    lines = [ln.strip() for ln in text.split("\n")]
    if not lines[0].startswith("# vtk DataFile"):
        raise FoamSyntaxError("not a VTK file")
    if lines[2] != "ASCII":
        raise FoamSyntaxError("VTK: ASCII expected")
    toks = " ".join(lines[3:]).split()
    i = 0

    def expect(word):
        nonlocal i
        if toks[i] != word:
            raise FoamSyntaxError(f"VTK: expected {word}, got {toks[i]}")
        i += 1

    expect("DATASET")
    expect("UNSTRUCTURED_GRID")
    expect("POINTS")
    npts = int(toks[i])
    i += 2
    pts = []
    for _ in range(npts):
        pts.append((float(toks[i]), float(toks[i + 1]), float(toks[i + 2])))
        i += 3
    expect("CELLS")
    ncells, nints = int(toks[i]), int(toks[i + 1])
    i += 2
    cells = []
    start = i
    for _ in range(ncells):
        n = int(toks[i])
        cells.append([int(x) for x in toks[i + 1 : i + 1 + n]])
        i += 1 + n
    if i - start != nints:
        raise FoamSyntaxError(f"VTK: CELLS size {nints} but {i - start} integers listed")
    expect("CELL_TYPES")
    nt = int(toks[i])
    i += 1
    types = [int(x) for x in toks[i : i + nt]]
    i += nt
    if nt != ncells:
        raise FoamSyntaxError("VTK: CELL_TYPES count differs from CELLS")
    data = None
    if i < len(toks):
        expect("CELL_DATA")
        nd = int(toks[i])
        i += 1
        expect("SCALARS")
        i += 3
        expect("LOOKUP_TABLE")
        i += 1
        data = [float(x) for x in toks[i : i + nd]]
        if len(data) != nd or nd != ncells:
            raise FoamSyntaxError("VTK: CELL_DATA size mismatch")
        i += nd
        if i != len(toks):
            raise FoamSyntaxError("VTK: trailing tokens")
    return {"points": pts, "cells": cells, "types": types, "data": data}
