"""Which engine decides which property, with tiers and evidence texts."""

from typing import Any, Dict, Optional

from . import driver

COMPONENTS = {
    "real": ["classy_blocks (whole package, from /repo/src)", "numpy", "scipy (brentq, minimize in fault-free configurations)"],
    "stub": ["builtin set constructor in classy_blocks modules (SimSet: scheduler-owned iteration order)",
             "open() in classy_blocks.mesh and util.vtk_writer (SimFS, in-memory, fault plan)",
             "id() in construct.shapes.sphere (SimId)"],
}


class PropagationCheck:
    def __init__(self, pid: str, rule: str, assumptions):
        self.pid, self.rule, self.assumptions = pid, rule, assumptions

    def run(self, tier: str, seed: int, n_override: Optional[int]) -> int:
        from .engines import propagation_check as E

        n, ncfg, k, wall = E.TIERS[tier][self.pid]
        wall *= _wall_scale()
        if n_override:
            n = n_override
        return driver.run_check(self.pid, tier, seed, E, {"ncfg": ncfg, "k": k}, n, wall, "exploration", self.rule,
                                self.assumptions, COMPONENTS, per_task_s=180 * (5 if tier == "thorough" else 1), chunk=2)

    def replay(self, path: str, quiet: bool) -> int:
        from .engines import propagation_check as E

        return driver.run_replay(self.pid, E, path, quiet)


class EngineCheck:
    """A check whose engine module exposes task / replay_check / TIERS (n, a, b, wall)."""

    def __init__(self, pid: str, module: str, level: str, rule: str, assumptions, argnames, per_task_s=180, chunk=4, components=None):
        self.pid, self.module, self.level, self.rule, self.assumptions = pid, module, level, rule, assumptions
        self.argnames, self.per_task_s, self.chunk = argnames, per_task_s, chunk
        self.components = components or COMPONENTS

    def _engine(self):
        import importlib

        return importlib.import_module("sim.engines." + self.module)

    def run(self, tier: str, seed: int, n_override: Optional[int]) -> int:
        E = self._engine()
        cfg = E.TIERS[tier]
        n, wall = cfg[0], cfg[-1] * _wall_scale()
        if n_override:
            n = n_override
        arg = dict(zip(self.argnames, cfg[1:-1]))
        arg["tier"] = tier
        return driver.run_check(self.pid, tier, seed, E, arg, n, wall, self.level, self.rule, self.assumptions,
                                self.components, per_task_s=self.per_task_s * (5 if tier == "thorough" else 1), chunk=self.chunk,
                                extra_cov=getattr(E, "extra_coverage", None))

    def replay(self, path: str, quiet: bool) -> int:
        return driver.run_replay(self.pid, self._engine(), path, quiet)


def _wall_scale() -> float:
    """VERIF_WALL_SCALE stretches every tier's wall budget (for sensitivity runs on a busy machine); default 1"""
    import os

    try:
        return max(float(os.environ.get("VERIF_WALL_SCALE", "1")), 0.1)
    except ValueError:
        return 1.0


PROP_RULE = ("one evaluation = one simulated execution of a generated script (lattice / path / pie-of-sectors / shape assembly with chops; "
             "assemble, write, optionally a write that is tried and retried, a second write as it is / by a second Mesh object / after vertex "
             "moves, a third one after the vertices were put back) under (configuration = add order + "
             "corner renumbering per block, schedule = ranking of every neighbour/coincident set and of every identity-hashed object). distinct_nontrivial counts distinct "
             "(assembly digest, configuration, event-log digest) triples among executions in which the propagation step met a choice "
             "(>=2 defined candidate neighbours, or a scheduler decision on an order-sensitive set), as counted by probes.")

CHECKS: Dict[str, Any] = {
    "C01": PropagationCheck("C01", PROP_RULE, [
        "vertex identity in the workload is exact (shared point table); tolerance questions are C05's",
        "the reference edge-family model (union-find over vertex pairs) is correct",
        "the blockMeshDict reader (sim/foam.py) is correct"]),
    "C02": PropagationCheck("C02", PROP_RULE, [
        "the progress bound 8n^2+16 calls of the per-block copy step is generous for any terminating run (argued in DESIGN 2.5)",
        "the reference edge-family model is correct", "the blockMeshDict reader is correct"]),
    "C04": PropagationCheck("C04", PROP_RULE, [
        "blockMesh grading law: each section is a geometric progression whose last/first ratio is the written expansion",
        "reference edge lengths: chord, three-point arc, polyline sum", "the blockMeshDict reader is correct"]),
    "C05": EngineCheck("C05", "vertices_check", "exploration",
        "one evaluation = one simulated assembly+write of (generated operations with exactly / nearly coincident and detached corners, patches, "
        "merged pairs, operations turned over or mirrored before or between two assemblies (same Mesh cleared, or a second Mesh object); "
        "configuration = order of mesh.add and merge_patches; schedule = simulated string-hash order of every per-corner "
        "patch-name set). distinct_nontrivial counts distinct (model digest, configuration, event-log digest) among executions whose "
        "reference partition has at least one vertex shared between corners.",
        ["corner clusters in the workload are unambiguous: coincident within 2e-8, distinct >= 1e-5 (never within a decade of TOL=1e-7)",
         "the reference key (position cluster, slave patches touching that corner of that operation) is the intended rule",
         "the blockMeshDict reader is correct"], ["norders", "k"]),
    "C12": EngineCheck("C12", "lifecycle_check", "fault_enumeration",
        "one evaluation = one simulated history over {add, delete, assemble, move vertices (of operations and of a shape's centre / radius point), "
        "backport, clear, translate an operation, modify_patch, set_default_patch, merge_patches, write, write of the same entities through a second Mesh object} with injected faults as first-class steps (SimCrash at the k-th internal step of assemble followed by clear; "
        "open/write/close errors of write followed by a retry; a write that fails in grading followed by chop+clear+write). quick: fault points "
        "sampled; thorough: for every sampled history, every internal step of its first assembly and open / each of the 9 write calls / close of "
        "its first write are enumerated. distinct_nontrivial counts distinct (history shape, event-log digest) among executions with at least "
        "one checked write that follows a clear, backport, delete, crash or I/O fault.",
        ["the oracle is differential: the file written by a fresh Mesh rebuilt (by the same library) from the harness's own program log",
         "writes between a vertex move and backport/clear, and after add/delete/merge/chop on an assembled mesh without clear, are not generated "
         "(the statement does not say what they should produce)",
         "the blockMeshDict reader is correct; comparison is semantic (positions to 7 decimals, numbers to 9 significant digits, patches without faces ignored)"],
        ["faults"]),
    "C13": EngineCheck("C13", "optimizer_check", "exploration",
        "one evaluation = one simulated optimize() of a jittered box assembly or mapped sketch with a random subset of clamps (free, line with "
        "bounds, curve on line/circle/interpolated curve, radial, plane, parametric surface) created on their manifolds, 0-2 links (sometimes preceded by a refused one), one of the "
        "four methods, 1-3 iterations, under a per-call solver fault plan (real / stall / wander / wander-after-real / degenerate-cell abort), "
        "seeded or biased np.random, a clock plan and scheduler-owned order of Junction.cells. distinct_nontrivial counts distinct (scenario "
        "digest, event-log digest) among runs that executed at least one optimize_clamp step.",
        ["quality is measured with the library's own grid.quality (the measure itself is C14, not claimed)",
         "manifold / bounds / link relations are recomputed with the harness's own formulas (tolerance 2e-7 for manifolds, 1e-7 for links)",
         "clamped vertices are first moved onto the clamp's snapped position, so 'on its constraint' and 'no worse than before' are not in tension",
         "injected solver behaviours are legal for an external minimiser: it may stop anywhere inside the bounds, and its last evaluation need not be its best"],
        [], per_task_s=240, chunk=2,
        components={"real": COMPONENTS["real"] + ["scipy.optimize.minimize for 'real' and 'wander_after_real' calls and in clamp construction"],
                    "stub": COMPONENTS["stub"] + ["scipy.optimize.minimize inside optimize.optimizer for stall/wander/degenerate calls (SimMinimizer)",
                                                    "time.time in optimize.optimizer (SimClock)", "np.random (seeded per run; biased proxy in clamps.surface)"]}),
    "C06": EngineCheck("C06", "render_check", "exploration",
        "one evaluation = one simulated write(path, debug_path) of a generated user script (1-4 jittered lofts with rotated corner numbering, "
        "optionally a box / extrude / revolve and a shape: cylinder, frustum, ring, hemisphere, copied hemisphere, cylinder+chained hemisphere; "
        "patches on any sides incl. lists and duplicates, cell zones, side / corner / edge projections with user geometry, merged pairs, default "
        "patch, modify_patch, settings, a deletion, an early assembly or write followed by edits / a turned-over operation and clear or backport, "
        "a final write by a second Mesh object) under an address layout for id() (sequential / shuffled) and a simulated hash order of "
        "patch-name sets; the bytes captured at the file-system seam are parsed by an independent reader and compared with a reference renderer. "
        "distinct_nontrivial counts distinct (program digest, event-log digest) among executions whose program declares at least one patch side "
        "or projected side.",
        ["the reference takes hex operations from the program text; for shape-built / derived operations it reads the operation's public state "
         "(points, patch names, zone, projections) before assembly - how shapes lay out their operations is C11, not claimed",
         "the harness's own side / edge tables (blockMesh user guide) are correct", "the blockMeshDict and legacy-VTK readers are correct",
         "edge entries are checked only for index validity and defined geometry (their content is C07, not claimed)"], ["k"]),
}


ENGINES = ["propagation", "vertices", "lifecycle", "optimizer", "render"]
SELFTEST_SEEDS = {"propagation": 40, "vertices": 100, "lifecycle": 100, "optimizer": 16, "render": 60}


def engine_module(name: str):
    import importlib

    return importlib.import_module("sim.engines." + name + "_check")
