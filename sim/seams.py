"""Seams: everything nondeterministic the claimed properties can depend on is replaced,
from outside the repository, by an object the simulator owns.

Python resolves a free name in a function as module-global first, builtin second, so
writing `set` / `open` / `id` / `time` / `scipy` / `np` into a classy_blocks module's
namespace replaces it for that module only.  No source hook in /repo is needed.
"""

import builtins
import errno
import io
import sys
from collections.abc import MutableSet, Set as AbcSet
from typing import Any, Callable, Dict, Iterable, List, Optional, Tuple

from .streams import h64

# ---------------------------------------------------------------------------------------
# The world of one simulated run
# ---------------------------------------------------------------------------------------

CURRENT: Optional["World"] = None


class SimCrash(BaseException):
    """Injected crash (like KeyboardInterrupt: not an Exception, nothing in the library catches it)."""


class SimLivelock(BaseException):
    """Raised by a step probe when a budgeted loop exceeds its progress bound."""


class SimAbort(BaseException):
    """Raised by the harness itself to leave a run (never a verdict)."""


class World:
    """Per-run context: scheduler for set orders, labels, event log, fault plans."""

    def __init__(
        self,
        sched_seed: int = 0,
        mode: str = "uniform",
        explicit: Optional[Dict[str, List[str]]] = None,
        str_seed: Optional[int] = None,
    ):
        self.sched_seed = sched_seed
        self.str_seed = sched_seed if str_seed is None else str_seed
        self.mode = mode  # uniform | insertion | reverse | asc | desc | chopless_first
        self.explicit = dict(explicit or {})
        self.log: List[Tuple] = []
        self.set_ordinal = 0
        self._labels: Dict[int, str] = {}
        self._attrs: Dict[int, Dict[str, Any]] = {}
        self._keep: List[Any] = []  # keeps labelled objects alive so id() is not reused
        self.consulted: Dict[str, List[str]] = {}
        self.decisions = 0  # iterations of >=2 order-sensitive elements
        self.counters: Dict[str, int] = {}
        self.fs = SimFS(self)
        self.ids = SimId(self)
        self._hashes: Dict[int, int] = {}
        self._hash_keep: List[Any] = []

    # -- simulated identity hash (covers set literals / comprehensions / dict keys, which
    #    the `set` seam cannot intercept): one value per object, from the schedule seed and
    #    the order in which objects are first hashed (deterministic for a given program)
    def sim_hash(self, obj: Any) -> int:
        key = builtins.id(obj)
        h = self._hashes.get(key)
        if h is None:
            n = len(self._hashes) + 1
            if self.mode in ("insertion", "asc"):
                h = n  # small ascending ints: real sets then iterate in creation order
            elif self.mode in ("reverse", "desc"):
                h = (1 << 20) - n
            else:
                h = h64(self.sched_seed, "hash", n) >> 3
            self._hashes[key] = h
            self._hash_keep.append(obj)
        return h

    # -- labels ----------------------------------------------------------------------
    def label(self, obj: Any, label: str, **attrs: Any) -> None:
        self._labels[builtins.id(obj)] = label
        if attrs:
            self._attrs[builtins.id(obj)] = attrs
        self._keep.append(obj)

    def label_of(self, obj: Any) -> Optional[str]:
        return self._labels.get(builtins.id(obj))

    def attrs_of(self, obj: Any) -> Dict[str, Any]:
        return self._attrs.get(builtins.id(obj), {})

    def count(self, name: str, n: int = 1) -> None:
        self.counters[name] = self.counters.get(name, 0) + n

    def event(self, kind: str, *payload: Any) -> None:
        self.log.append((len(self.log), kind) + payload)

    # -- the scheduler: order of a set's order-sensitive elements ----------------------
    def order(self, simset: "SimSet", items: List[Any]) -> List[Any]:
        slabel = simset.label or self.label_of(simset) or f"set#{simset.ordinal}"
        labelled = []
        for ins, it in items:
            if isinstance(it, str):
                labelled.append((it, ins, it))
            else:
                labelled.append((self.label_of(it) or f"e{ins}", ins, it))

        explicit = self.explicit.get(slabel)
        if explicit is not None:
            pos = {lab: i for i, lab in enumerate(explicit)}
            # elements not named keep insertion order after the named ones
            labelled.sort(key=lambda t: (pos.get(t[0], len(pos)), t[1]))
        else:
            labelled.sort(key=lambda t: self._rank(slabel, t[0], t[1], t[2]))

        order = [t[0] for t in labelled]
        prev = self.consulted.get(slabel)
        if prev != order:
            self.consulted[slabel] = order
            self.event("order", slabel, tuple(order))
        self.decisions += 1
        return [t[2] for t in labelled]

    def _rank(self, slabel: str, elabel: str, ins: int, obj: Any):
        mode = self.mode
        if isinstance(obj, str):
            # a simulated per-process string hash: consistent across all sets of the run
            if mode == "insertion":
                return (0, ins)
            return (0, h64(self.str_seed, "str", obj))
        if mode == "insertion":
            return (0, ins)
        if mode == "reverse":
            return (0, -ins)
        if mode == "uniform":
            return (0, h64(self.sched_seed, slabel, elabel))
        attrs = self.attrs_of(obj)
        if mode == "asc":
            return (attrs.get("block", 1 << 30), h64(self.sched_seed, slabel, elabel))
        if mode == "desc":
            return (-attrs.get("block", -1), h64(self.sched_seed, slabel, elabel))
        if mode == "chopless_first":
            return (0 if not attrs.get("chopped", False) else 1, h64(self.sched_seed, slabel, elabel))
        if mode == "chopped_first":
            return (0 if attrs.get("chopped", False) else 1, h64(self.sched_seed, slabel, elabel))
        raise ValueError(mode)


def _sim_hash(self) -> int:
    w = CURRENT
    if w is None:
        return object.__hash__(self)
    return w.sim_hash(self)


def _order_sensitive(x: Any) -> bool:
    """True when CPython's iteration order of a set holding x is not a function of the
    program alone: identity-hashed objects (address) and str (hash randomisation)."""
    if isinstance(x, str):
        return True
    return type(x).__hash__ in (object.__hash__, _sim_hash)


class SimSet(MutableSet):
    """Drop-in for the builtin set whose iteration order the scheduler owns.

    * elements with deterministic hashes (ints, Vertex (hash=index), tuples of those):
      order of a mirrored real set - CPython-faithful, so nothing unreal is explored;
    * identity-hashed or str elements: order from World.order(), stable for the life of
      the set as long as labels are (rank is a keyed hash, not a fresh draw).
    """

    __slots__ = ("_d", "_real", "_n", "label", "ordinal", "_sens")

    def __init__(self, iterable: Iterable = ()):
        self._d: Dict[Any, int] = {}
        self._real: set = builtins.set()
        self._n = 0
        self._sens = False
        self.label: Optional[str] = None
        w = CURRENT
        if w is not None:
            w.set_ordinal += 1
            self.ordinal = w.set_ordinal
        else:
            self.ordinal = 0
        for x in iterable:
            self.add(x)

    # -- core -------------------------------------------------------------------------
    def __contains__(self, x) -> bool:
        return x in self._d

    def __len__(self) -> int:
        return len(self._d)

    def __iter__(self):
        if len(self._d) < 2 or not self._sens:
            return iter(list(self._real))
        w = CURRENT
        items = [(ins, it) for it, ins in self._d.items()]
        if w is None:
            return iter([it for _, it in items])
        return iter(w.order(self, items))

    def add(self, x) -> None:
        if x not in self._d:
            self._d[x] = self._n
            self._n += 1
            self._real.add(x)
            if not self._sens and _order_sensitive(x):
                self._sens = True

    def discard(self, x) -> None:
        if x in self._d:
            del self._d[x]
            self._real.discard(x)

    def remove(self, x) -> None:
        if x not in self._d:
            raise KeyError(x)
        self.discard(x)

    def pop(self):
        for x in self:
            self.discard(x)
            return x
        raise KeyError("pop from an empty set")

    def clear(self) -> None:
        self._d.clear()
        self._real.clear()

    def copy(self) -> "SimSet":
        return SimSet(self._d)

    def __repr__(self) -> str:
        return "SimSet(" + repr(list(self._d)) + ")"

    @classmethod
    def _from_iterable(cls, it):
        return cls(it)

    # -- the named-method API of builtin set (ABC gives only operators) -------------------
    def update(self, *others) -> None:
        for o in others:
            for x in o:
                self.add(x)

    def union(self, *others) -> "SimSet":
        out = self.copy()
        out.update(*others)
        return out

    def intersection(self, *others) -> "SimSet":
        out = SimSet()
        for x in self._d:  # insertion order of self (deterministic)
            if all(x in o for o in others):
                out.add(x)
        return out

    def intersection_update(self, *others) -> None:
        for x in list(self._d):
            if not all(x in o for o in others):
                self.discard(x)

    def difference(self, *others) -> "SimSet":
        out = SimSet()
        for x in self._d:
            if not any(x in o for o in others):
                out.add(x)
        return out

    def difference_update(self, *others) -> None:
        for o in others:
            for x in list(o):
                self.discard(x)

    def symmetric_difference(self, other) -> "SimSet":
        out = self.difference(other)
        for x in other:
            if x not in self._d:
                out.add(x)
        return out

    def symmetric_difference_update(self, other) -> None:
        new = self.symmetric_difference(other)
        self.clear()
        self.update(new)

    def issubset(self, other) -> bool:
        return all(x in other for x in self._d)

    def issuperset(self, other) -> bool:
        return all(x in self._d for x in other)

    def isdisjoint(self, other) -> bool:
        return not any(x in self._d for x in other)

    def __eq__(self, other):
        if isinstance(other, (AbcSet, builtins.set, builtins.frozenset)):
            return len(self) == len(other) and all(x in other for x in self._d)
        return NotImplemented

    def __ne__(self, other):
        r = self.__eq__(other)
        return r if r is NotImplemented else not r

    __hash__ = None  # type: ignore

    def __isub__(self, other):
        self.difference_update(other)
        return self

    def __ior__(self, other):
        self.update(other)
        return self

    def __iand__(self, other):
        self.intersection_update(other)
        return self

    def __reduce__(self):
        return (SimSet, (list(self._d),))

    def __deepcopy__(self, memo):
        import copy

        out = SimSet()
        memo[builtins.id(self)] = out
        for x in self._d:
            out.add(copy.deepcopy(x, memo))
        return out


# ---------------------------------------------------------------------------------------
# File-system seam
# ---------------------------------------------------------------------------------------


class FsFault:
    """One planned I/O fault.
    kind: 'open' (errno on open), 'write' (errno on the k-th write call of that file
    opening, the prefix stays: torn file), 'close' (errno on close)."""

    def __init__(self, kind: str, path_part: str = "", at: int = 0, err: int = errno.ENOSPC, nth_open: int = 0):
        self.kind, self.path_part, self.at, self.err, self.nth_open = kind, path_part, at, err, nth_open
        self.fired = False

    def to_json(self):
        return {"kind": self.kind, "path_part": self.path_part, "at": self.at, "err": self.err, "nth_open": self.nth_open}

    @classmethod
    def from_json(cls, d):
        return cls(d["kind"], d.get("path_part", ""), d.get("at", 0), d.get("err", errno.ENOSPC), d.get("nth_open", 0))


class SimFile:
    def __init__(self, fs: "SimFS", path: str, mode: str, opening: int):
        self.fs, self.path, self.mode, self.opening = fs, path, mode, opening
        self.closed = False
        self.nwrites = 0
        self.buf: List[str] = []

    def write(self, text: str) -> int:
        if self.closed:
            raise ValueError("I/O operation on closed file.")
        fault = self.fs._match("write", self.path, self.opening, self.nwrites)
        self.nwrites += 1
        if fault is not None:
            # torn write: a prefix of this chunk reaches the file
            part = text[: len(text) // 2]
            self.fs.files[self.path] = self.fs.files.get(self.path, "") + part
            self.fs._rec("write-fail", self.path, len(part), fault.err)
            if fault.err < 0:
                # the process is interrupted inside the write (KeyboardInterrupt-like): not an OSError
                raise SimCrash(f"crash inside write call {self.nwrites - 1} of {self.path}")
            raise OSError(fault.err, "simulated write error", self.path)
        self.fs.files[self.path] = self.fs.files.get(self.path, "") + text
        self.fs._rec("write", self.path, len(text))
        return len(text)

    def close(self) -> None:
        if self.closed:
            return
        self.closed = True
        fault = self.fs._match("close", self.path, self.opening, 0)
        if fault is not None:
            self.fs._rec("close-fail", self.path, fault.err)
            raise OSError(fault.err, "simulated close error", self.path)
        self.fs._rec("close", self.path)

    def __enter__(self):
        return self

    def __exit__(self, et, ev, tb):
        if et is not None:
            # like a real file object: close quietly on the error path
            self.closed = True
            self.fs._rec("close-on-error", self.path)
            return False
        self.close()
        return False


class SimFS:
    """In-memory file system with a fault plan.  Only text 'w' / 'r' modes are needed."""

    def __init__(self, world: World):
        self.world = world
        self.files: Dict[str, str] = {}
        self.ops: List[Tuple] = []
        self.plan: List[FsFault] = []
        self.openings: Dict[str, int] = {}
        self.fired: List[Tuple] = []

    def _rec(self, *op) -> None:
        self.ops.append(op)
        self.world.event("fs", *op)

    def _match(self, kind: str, path: str, opening: int, k: int) -> Optional[FsFault]:
        for f in self.plan:
            if f.fired or f.kind != kind or f.path_part not in path or f.nth_open != opening:
                continue
            if kind == "write" and f.at != k:
                continue
            f.fired = True
            self.fired.append((kind, path, opening, k, f.err))
            self.world.count("fault:fs-" + kind)
            return f
        return None

    def open(self, path, mode="r", *args, **kwargs):
        path = str(path)
        opening = self.openings.get(path, 0)
        self.openings[path] = opening + 1
        fault = self._match("open", path, opening, 0)
        if fault is not None:
            self._rec("open-fail", path, mode, fault.err)
            raise OSError(fault.err, "simulated open error", path)
        if "w" in mode:
            self.files[path] = ""
            self._rec("open", path, mode)
            return SimFile(self, path, mode, opening)
        if "r" in mode:
            if path not in self.files:
                raise FileNotFoundError(errno.ENOENT, "No such file", path)
            self._rec("open", path, mode)
            return io.StringIO(self.files[path])
        raise ValueError("SimFS: unsupported mode " + mode)

    def ops_on(self, path: str) -> List[Tuple]:
        return [op for op in self.ops if len(op) > 1 and op[1] == path]


# ---------------------------------------------------------------------------------------
# id() seam
# ---------------------------------------------------------------------------------------


class SimId:
    """Stable per-object integers. layout 'seq': 1,2,3...; 'shuffled': large keyed values."""

    def __init__(self, world: World, layout: str = "seq"):
        self.world = world
        self.layout = layout
        self._ids: Dict[int, int] = {}
        self._keep: List[Any] = []

    def __call__(self, obj: Any) -> int:
        key = builtins.id(obj)
        if key not in self._ids:
            n = len(self._ids) + 1
            if self.layout == "seq":
                val = n
            else:
                val = 140000000000000 + (h64(self.world.sched_seed, "id", n) % (1 << 40)) * 16
            self._ids[key] = val
            self._keep.append(obj)
            self.world.event("id", n, val)
        return self._ids[key]


# ---------------------------------------------------------------------------------------
# install / uninstall
# ---------------------------------------------------------------------------------------

_INSTALLED: List[Tuple[Any, str, Any, bool]] = []

SET_MODULES_DEFAULT = (
    "classy_blocks.items.wires.axis",
    "classy_blocks.items.wires.wire",
    "classy_blocks.construct.operations.operation",
    "classy_blocks.lists.block_list",
    "classy_blocks.optimize.junction",
    "classy_blocks.mesh",
)


def _inject(modname: str, name: str, value: Any) -> None:
    mod = sys.modules.get(modname)
    if mod is None:
        __import__(modname)
        mod = sys.modules[modname]
    had = name in mod.__dict__
    old = mod.__dict__.get(name)
    _INSTALLED.append((mod, name, old, had))
    setattr(mod, name, value)


def install_set(modules: Iterable[str] = SET_MODULES_DEFAULT) -> None:
    for m in modules:
        _inject(m, "set", SimSet)


def install_set_everywhere() -> int:
    import classy_blocks  # noqa: F401

    n = 0
    for name in sorted(sys.modules):
        if name == "classy_blocks" or name.startswith("classy_blocks."):
            if sys.modules[name] is not None:
                _inject(name, "set", SimSet)
                n += 1
    return n


def _fs_open(path, mode="r", *a, **k):
    w = CURRENT
    if w is None:
        return builtins.open(path, mode, *a, **k)
    return w.fs.open(path, mode, *a, **k)


def _sim_id(obj):
    w = CURRENT
    if w is None:
        return builtins.id(obj)
    return w.ids(obj)


def install_fs() -> None:
    _inject("classy_blocks.mesh", "open", _fs_open)
    _inject("classy_blocks.util.vtk_writer", "open", _fs_open)


def install_id() -> None:
    _inject("classy_blocks.construct.shapes.sphere", "id", _sim_id)


_HASH_PATCHED: List[type] = []


def install_simhash() -> int:
    """Every identity-hashed class defined in classy_blocks gets a scheduler-owned __hash__
    (equality stays identity).  Real sets / dicts of such objects then iterate in an order
    that is a function of the schedule seed instead of memory addresses."""
    import inspect

    import classy_blocks  # noqa: F401

    n = 0
    for name in sorted(sys.modules):
        if not (name == "classy_blocks" or name.startswith("classy_blocks.")):
            continue
        mod = sys.modules[name]
        if mod is None:
            continue
        for _, cls in inspect.getmembers(mod, inspect.isclass):
            if getattr(cls, "__module__", "").startswith("classy_blocks") and cls not in _HASH_PATCHED:
                if cls.__dict__.get("__hash__", "absent") == "absent" and cls.__hash__ is object.__hash__ and "__eq__" not in cls.__dict__:
                    if issubclass(cls, BaseException):
                        continue
                    try:
                        cls.__hash__ = _sim_hash  # type: ignore
                    except TypeError:
                        continue
                    _HASH_PATCHED.append(cls)
                    n += 1
    return n


def uninstall_simhash() -> None:
    while _HASH_PATCHED:
        cls = _HASH_PATCHED.pop()
        try:
            del cls.__hash__
        except (AttributeError, TypeError):
            pass


def uninstall_all() -> None:
    uninstall_simhash()
    while _INSTALLED:
        mod, name, old, had = _INSTALLED.pop()
        if had:
            setattr(mod, name, old)
        else:
            try:
                delattr(mod, name)
            except AttributeError:
                pass


def install_standard() -> None:
    """set + open + id seams; idempotent."""
    if _INSTALLED:
        return
    install_set()
    install_fs()
    install_id()
    install_simhash()


class run_world:
    """Context manager: makes a World current for the duration of one simulated run."""

    def __init__(self, world: World):
        self.world = world

    def __enter__(self) -> World:
        global CURRENT
        self.prev = CURRENT
        CURRENT = self.world
        return self.world

    def __exit__(self, *exc):
        global CURRENT
        CURRENT = self.prev
        return False


def patch_attr(obj: Any, name: str, value: Any) -> Callable[[], None]:
    """Class/instance attribute probe; returns the undo function."""
    had = name in obj.__dict__
    old = obj.__dict__.get(name)
    setattr(obj, name, value)

    def undo():
        if had:
            setattr(obj, name, old)
        else:
            delattr(obj, name)

    return undo
