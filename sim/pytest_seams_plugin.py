"""pytest plugin for the seam-transparency self-test: the repository's own suite must give
the baseline result with the simulated `set` injected into every classy_blocks module and a
scheduler (uniform order) active.  Used only by `check.py transparency`."""

import os

from sim import seams

_world = None


def pytest_configure(config):
    global _world
    n = seams.install_set_everywhere()
    seams.install_id()
    _world = seams.World(sched_seed=int(os.environ.get("VERIF_TRANSPARENCY_SEED", "7")), mode="uniform")
    seams.CURRENT = _world
    config._verif_modules = n


def pytest_sessionfinish(session, exitstatus):
    if _world is not None:
        print(f"\n[verif] SimSet injected into {session.config._verif_modules} modules; scheduler decisions: {_world.decisions}; sets created: {_world.set_ordinal}")
