"""setup (import check) and the determinism / transparency self-tests."""

import json
import os
import subprocess
import sys
from typing import Dict, List

from . import runner
from .streams import digest


def setup() -> int:
    import numpy  # noqa: F401
    import scipy  # noqa: F401

    import classy_blocks

    src = os.path.realpath(classy_blocks.__file__)
    if not src.startswith("/repo/"):
        print("HARNESS-ERROR: classy_blocks is not imported from /repo:", src)
        return 2
    from . import foam, models, program, seams  # noqa: F401
    from .engines import propagation  # noqa: F401

    os.makedirs(os.path.join(runner.VERIF, "evidence"), exist_ok=True)
    print("setup ok: classy_blocks from", src)
    return 0


def engine_digests(engine: str, seeds: List[int]) -> Dict[str, str]:
    """event-log digests of a few runs per engine (used to compare interpreters)"""
    out = {}
    if engine == "propagation":
        from .engines import propagation_check as E

        for s in seeds:
            for pid in ("C01", "C02", "C04"):
                r = E.task(s, {"pid": pid, "ncfg": 2, "k": 3})
                out[f"{pid}:{s}"] = digest([x[:3] for x in r["sigs"]])
    else:
        from . import registry

        mod = registry.engine_module(engine)
        for s in seeds:
            r = mod.task(s, dict(mod.SELFTEST_ARG))
            out[f"{engine}:{s}"] = digest([x[:3] for x in r["sigs"]])
    return out


def digests_in_fresh_interpreter(engine: str, seeds: List[int], hashseed: str) -> Dict[str, str]:
    env = dict(os.environ)
    env["PYTHONHASHSEED"] = hashseed
    code = ("import sys, json; sys.path.insert(0, %r); sys.dont_write_bytecode=True\n"
            "from sim import selftest\n"
            "print('DIGESTS=' + json.dumps(selftest.engine_digests(%r, %r)))\n") % (runner.VERIF, engine, seeds)
    p = subprocess.run([sys.executable, "-c", code], env=env, capture_output=True, text=True, timeout=900)
    for line in p.stdout.splitlines():
        if line.startswith("DIGESTS="):
            return json.loads(line[len("DIGESTS="):])
    raise RuntimeError("no digests from the fresh interpreter: " + p.stderr[-2000:])


def determinism(engine: str, seeds: List[int]) -> List[str]:
    """same seeds: twice in this process, once in a fresh interpreter under another hash seed"""
    a = engine_digests(engine, seeds)
    b = engine_digests(engine, seeds)
    c = digests_in_fresh_interpreter(engine, seeds, "12345")
    bad = []
    for k in a:
        if a[k] != b[k]:
            bad.append(f"{k}: differs between two runs in one process")
        if a[k] != c.get(k):
            bad.append(f"{k}: differs in a fresh interpreter with PYTHONHASHSEED=12345")
    return bad


def main(seed: int) -> int:
    from . import registry

    rc = 0
    for engine in registry.ENGINES:
        seeds = [(seed + 7919 * i) % (1 << 31) for i in range(registry.SELFTEST_SEEDS.get(engine, 40))]
        bad = determinism(engine, seeds)
        print(f"selftest determinism {engine}: {len(seeds)} seeds x (2 in-process + 1 fresh interpreter, other hash seed): {'OK' if not bad else 'MISMATCH'}")
        for b in bad[:10]:
            print("  HARNESS-NONDETERMINISM:", b)
        if bad:
            rc = 2
    return rc


def transparency() -> int:
    """The repository's suite under package-wide seams must equal the baseline: every test in
    BASELINE.stable_pass passes, nothing but the known always-fail fails."""
    import re
    import tempfile

    base = json.load(open("/root/.vp/BASELINE.json"))
    rc = 0
    for seed in ("7", "8"):
        with tempfile.TemporaryDirectory() as tmp:
            xml = os.path.join(tmp, "r.xml")
            env = dict(os.environ, PYTHONPATH=runner.VERIF, VERIF_TRANSPARENCY_SEED=seed)
            p = subprocess.run([sys.executable, "-m", "pytest", "-q", "-p", "no:cacheprovider", "-p", "sim.pytest_seams_plugin", "-n", "8",
                                "--timeout=900", "--junitxml=" + xml, "tests"], cwd="/repo", env=env, capture_output=True, text=True, timeout=3000)
            import xml.etree.ElementTree as ET

            root = ET.parse(xml).getroot()
            passed, failed = 0, []
            for tc in root.iter("testcase"):
                name = tc.get("classname", "") + "::" + tc.get("name", "")
                if tc.find("failure") is not None or tc.find("error") is not None:
                    failed.append(name)
                elif tc.find("skipped") is None:
                    passed += 1
            unexpected = [f for f in failed if not f.endswith("SplineInterpolatedCurveTests::test_length")]
            need = len(base.get("stable_pass", []))
            print(f"transparency seed {seed}: {passed} passed, {len(failed)} failed (baseline stable_pass {need}); unexpected failures: {unexpected[:5]}")
            world_line = [ln for ln in p.stdout.splitlines() if ln.startswith("[verif]")]
            if world_line:
                print("  " + world_line[-1])
            if unexpected or passed < need:
                rc = 2
    return rc
