"""Own hexahedron tables, written from the blockMesh user guide (section 'blocks'):
vertex numbering: 0-3 bottom face counter-clockwise seen from +z, 4-7 above them.
Edge order used by edgeGrading: x1: 0-1 3-2 7-6 4-5, x2: 0-3 1-2 5-6 4-7, x3: 0-4 1-5 2-6 3-7.
Imports nothing from classy_blocks."""

from itertools import permutations, product
from typing import Dict, List, Tuple

CORNER_POS = (
    (0, 0, 0),
    (1, 0, 0),
    (1, 1, 0),
    (0, 1, 0),
    (0, 0, 1),
    (1, 0, 1),
    (1, 1, 1),
    (0, 1, 1),
)
POS_CORNER = {p: i for i, p in enumerate(CORNER_POS)}

AXIS_EDGES = (
    ((0, 1), (3, 2), (7, 6), (4, 5)),
    ((0, 3), (1, 2), (5, 6), (4, 7)),
    ((0, 4), (1, 5), (2, 6), (3, 7)),
)
EDGES12 = AXIS_EDGES[0] + AXIS_EDGES[1] + AXIS_EDGES[2]

# the six sides, as the set of corners on them (derived from positions, not copied)
SIDE_CORNERS: Dict[str, frozenset] = {
    "bottom": frozenset(i for i, p in enumerate(CORNER_POS) if p[2] == 0),
    "top": frozenset(i for i, p in enumerate(CORNER_POS) if p[2] == 1),
    "left": frozenset(i for i, p in enumerate(CORNER_POS) if p[0] == 0),
    "right": frozenset(i for i, p in enumerate(CORNER_POS) if p[0] == 1),
    "front": frozenset(i for i, p in enumerate(CORNER_POS) if p[1] == 0),
    "back": frozenset(i for i, p in enumerate(CORNER_POS) if p[1] == 1),
}
SIDES = ("bottom", "top", "left", "right", "front", "back")


def _rotations() -> List[Tuple[int, ...]]:
    """The 24 proper rotations of the cube as corner renumberings:
    new corner i is the old corner PERM[i]."""
    out = []
    for perm in permutations(range(3)):
        for signs in product((1, -1), repeat=3):
            # matrix M[r][c] = signs[r] if c == perm[r] else 0
            # determinant = sign(perm) * prod(signs)
            inv = sum(1 for i in range(3) for j in range(i + 1, 3) if perm[i] > perm[j])
            det = (-1) ** inv * signs[0] * signs[1] * signs[2]
            if det != 1:
                continue
            mapping = []
            for p in CORNER_POS:
                c = [2 * x - 1 for x in p]  # centred coordinates +-1
                q = [signs[r] * c[perm[r]] for r in range(3)]
                mapping.append(POS_CORNER[tuple((x + 1) // 2 for x in q)])
            out.append(tuple(mapping))
    out.sort()
    assert len(out) == 24 and len(set(out)) == 24
    return out


ROTATIONS = _rotations()
IDENTITY = ROTATIONS.index((0, 1, 2, 3, 4, 5, 6, 7))


def renumber(corners: List, rot: int) -> List:
    perm = ROTATIONS[rot]
    return [corners[perm[i]] for i in range(8)]


def map_axis(rot: int, axis: int) -> Tuple[int, bool]:
    """A direction that is axis `axis` in the canonical numbering: which axis is it in
    the block renumbered by ROTATIONS[rot], and is its sense flipped?"""
    perm = ROTATIONS[rot]
    p, q = AXIS_EDGES[axis][0]
    # find new local corners holding old p and q
    np_ = perm.index(p)
    nq = perm.index(q)
    for a in range(3):
        for (u, v) in AXIS_EDGES[a]:
            if (u, v) == (np_, nq):
                return a, False
            if (u, v) == (nq, np_):
                return a, True
    raise AssertionError("not an edge")


def side_after(rot: int, side: str) -> str:
    """The canonical side `side`: what is it called in the renumbered block?"""
    perm = ROTATIONS[rot]
    old = SIDE_CORNERS[side]
    new = frozenset(perm.index(c) for c in old)
    for name, cs in SIDE_CORNERS.items():
        if cs == new:
            return name
    raise AssertionError("not a side")
