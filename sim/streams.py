"""Keyed deterministic streams: every random choice of a run is a pure function of
(run seed, stream name, key).  Nothing here reads a clock or a process-level RNG."""

import hashlib
import random
from typing import Any, List, Sequence


def h64(*parts: Any) -> int:
    """Stable 64-bit hash of the repr of the parts (independent of PYTHONHASHSEED)."""
    m = hashlib.sha256()
    for p in parts:
        m.update(repr(p).encode("utf-8"))
        m.update(b"\x1f")
    return int.from_bytes(m.digest()[:8], "big")


def digest(obj: Any) -> str:
    return hashlib.sha256(repr(obj).encode("utf-8")).hexdigest()[:16]


class Stream(random.Random):
    """Sequential stream keyed by (seed, name...)."""

    def __init__(self, *key: Any):
        super().__init__(h64(*key))
        self.key = key

    def chance(self, p: float) -> bool:
        return self.random() < p

    def pick(self, seq: Sequence):
        return seq[self.randrange(len(seq))]

    def weighted(self, pairs):
        """pairs: [(item, weight)]"""
        total = sum(w for _, w in pairs)
        x = self.random() * total
        acc = 0.0
        for item, w in pairs:
            acc += w
            if x < acc:
                return item
        return pairs[-1][0]

    def shuffled(self, seq: Sequence) -> List:
        out = list(seq)
        self.shuffle(out)
        return out

    def sub(self, *more: Any) -> "Stream":
        return Stream(*self.key, *more)
