"""Generic seeded-search driver shared by all checks: pool, triage against
known_findings.json, minimisation, fresh-process replay confirmation, evidence."""

import copy
import json
import os
import subprocess
import sys
import time
from typing import Any, Callable, Dict, List, Optional

from . import runner, shrink
from .streams import digest

PY = sys.executable


def seeds_for(base: int, n: int) -> List[int]:
    return [(base * 1000003 + i) % (1 << 31) for i in range(n)]


def confirm_replay(pid: str, path: str) -> bool:
    """Replays the file in a fresh interpreter; True iff it reports the same violation."""
    env = dict(os.environ)
    env["PYTHONHASHSEED"] = "0"
    p = subprocess.run([PY, os.path.join(runner.VERIF, "check.py"), pid, "--replay", path, "--quiet"],
                       env=env, capture_output=True, text=True, timeout=300)
    return p.returncode == 1 and ("VIOLATION property=" + pid) in p.stdout


HASHSEED_IS_PROPERTY = {"C02", "C05", "C06"}  # their statements promise the same result from run to run


def digests_under_hashseed(engine_name: str, arg: Dict[str, Any], seeds: List[int], hashseed: str) -> Dict[int, str]:
    """Runs engine.task for the seeds in a fresh interpreter under another PYTHONHASHSEED and
    returns the digest of each task's event-log signatures (covers set literals and
    comprehensions, which the `set` seam cannot intercept)."""
    env = dict(os.environ)
    env["PYTHONHASHSEED"] = hashseed
    code = ("import sys, json, os, warnings; warnings.simplefilter('ignore'); sys.dont_write_bytecode=True\n"
            "src=os.environ.get('VERIF_REPO_SRC')\n"
            "if src: sys.path.insert(0, src)\n"
            "sys.path.insert(0, %r)\n"
            "import importlib\n"
            "from sim.streams import digest\n"
            "E = importlib.import_module(%r)\n"
            "arg = json.loads(%r)\n"
            "out = {}\n"
            "for s in %r:\n"
            "    r = E.task(s, arg)\n"
            "    out[s] = digest([list(x[:-1]) for x in r['sigs']])\n"
            "print('DIGESTS=' + json.dumps(out))\n") % (runner.VERIF, engine_name, json.dumps(arg), seeds)
    p = subprocess.run([PY, "-c", code], env=env, capture_output=True, text=True, timeout=900)
    for line in p.stdout.splitlines():
        if line.startswith("DIGESTS="):
            return {int(k): v for k, v in json.loads(line[len("DIGESTS="):]).items()}
    raise RuntimeError("no digests from the fresh interpreter: " + p.stderr[-1500:])


def run_check(pid: str, tier: str, base_seed: int, engine: Any, arg: Dict[str, Any], n_seeds: int, wall_budget: float,
              level: str, rule: str, assumptions: List[str], components: Dict[str, List[str]],
              per_task_s: int = 120, chunk: int = 4, extra_cov: Optional[Callable[[List[Dict[str, Any]]], Dict[str, Any]]] = None) -> int:
    t0 = time.time()
    seeds = seeds_for(base_seed, n_seeds)
    arg = dict(arg, pid=pid)
    # ask the first few seeds for full samples
    results = runner.run_pool(engine.task, seeds, dict(arg, sample=True), chunk=chunk, per_task_s=per_task_s, wall_budget_s=wall_budget)
    harness = [r for r in results if r.get("harness")]
    good = [r for r in results if not r.get("harness")]
    known = runner.load_known_findings()
    known_keys = {(f["property"], f["key"]): f for f in known.get("findings", [])}

    mine: Dict[str, Dict[str, Any]] = {}
    counts: Dict[str, int] = {}
    others: Dict[str, int] = {}
    for r in good:
        for v in r.get("violations", []):
            if v["property"] != pid:
                others[v["property"] + ":" + v["key"]] = others.get(v["property"] + ":" + v["key"], 0) + 1
                continue
            counts[v["key"]] = counts.get(v["key"], 0) + 1
            if v["key"] not in mine:
                mine[v["key"]] = dict(v, seed=r["seed"])

    exit_code = runner.EXIT_OK
    lines: List[str] = []
    n_viol = 0
    for key, v in sorted(mine.items()):
        kf = known_keys.get((pid, key))
        if kf is not None:
            lines.append(f"KNOWN-FINDING: property={pid} {kf['what']} [key={key}; seen {counts[key]}x, first seed {v['seed']}]")
            continue
        n_viol += 1
        replay = {"property": pid, "engine": engine.__name__, "seed": v["seed"],
                  "violation": {"class": v["class"], "key": v["key"], "detail": v["detail"]}}
        replay.update(v["replay"])
        if hasattr(engine, "shrink_candidates") and n_viol <= 3:
            def still(c, _v=v):
                return any(x["property"] == pid and x["class"] == _v["class"] for x in engine.replay_check(pid, c))
            try:
                replay = shrink.minimise(replay, engine.shrink_candidates, still, budget_s=arg.get("shrink_s", 25.0))
                # refresh the detail from the minimised run
                for x in engine.replay_check(pid, replay):
                    if x["property"] == pid and x["class"] == v["class"]:
                        replay["violation"]["detail"] = x["detail"]
                        break
            except Exception as e:  # minimisation is best effort
                replay["minimise_error"] = repr(e)
        path = os.path.join(runner.VERIF, "replays", f"{pid}-{v['seed']}-{digest(key)[:6]}.json")
        runner.write_json(path, replay)
        ok = False
        try:
            ok = confirm_replay(pid, path)
        except Exception as e:
            lines.append(f"HARNESS-ERROR: replay of {path} could not be run: {e!r}")
        if ok:
            lines.append(f"VIOLATION property={pid} replay={path}")
            lines.append(f"  class={v['class']} seed={v['seed']} seen={counts[key]}x: {replay['violation']['detail'][:400]}")
            exit_code = runner.EXIT_VIOLATION
        else:
            lines.append(f"HARNESS-ERROR: violation {key} (seed {v['seed']}) did not reproduce from {path}; not reported as a violation")
            if exit_code == runner.EXIT_OK:
                exit_code = runner.EXIT_HARNESS

    # same seeds in a fresh interpreter under another PYTHONHASHSEED: same event logs?
    hs_n = arg.get("hashseed_slice", getattr(engine, "HASHSEED_SLICE", {}).get(tier, 8 if tier == "quick" else 64))
    hs_seeds = [r["seed"] for r in good[:hs_n]]
    hs_compared = 0
    if hs_seeds and not os.environ.get("VERIF_NO_HASHSEED_CHECK"):
        try:
            other = digests_under_hashseed(engine.__name__, {k: v for k, v in arg.items() if k != "sample"}, hs_seeds, "12345")
            mine_d = {r["seed"]: digest([list(x[:-1]) for x in r["sigs"]]) for r in good[:hs_n]}
            diff = [s_ for s_ in hs_seeds if other.get(s_) != mine_d[s_]]
            hs_compared = len(hs_seeds)
            if diff and pid in HASHSEED_IS_PROPERTY:
                path = os.path.join(runner.VERIF, "replays", f"{pid}-{diff[0]}-hashseed.json")
                runner.write_json(path, {"property": pid, "engine": engine.__name__, "seed": diff[0], "hashseeds": ["0", "12345"],
                                         "arg": {k: v for k, v in arg.items() if k != "sample"},
                                         "violation": {"class": "hashseed-dependent-outcome", "key": "hashseed-dependent-outcome",
                                                       "detail": f"seed {diff[0]}: the same program and schedule give different event logs / files under PYTHONHASHSEED=0 and 12345"}})
                lines.append(f"VIOLATION property={pid} replay={path}")
                lines.append(f"  class=hashseed-dependent-outcome: {len(diff)} of {len(hs_seeds)} seeds differ between PYTHONHASHSEED=0 and 12345 (first {diff[0]})")
                n_viol += 1
                exit_code = runner.EXIT_VIOLATION
            elif diff:
                lines.append(f"HARNESS-NONDETERMINISM: {len(diff)} of {len(hs_seeds)} seeds give another event log under PYTHONHASHSEED=12345 (first {diff[0]})")
                if exit_code == runner.EXIT_OK:
                    exit_code = runner.EXIT_HARNESS
        except Exception as e:
            lines.append(f"HARNESS-ERROR: hash-seed cross-check could not run: {e!r}")
            if exit_code == runner.EXIT_OK:
                exit_code = runner.EXIT_HARNESS

    if harness:
        tmo = [r for r in harness if r["harness"] == "timeout"]
        err = [r for r in harness if r["harness"] == "error"]
        for r in err[:3]:
            lines.append(f"HARNESS-ERROR: seed {r['seed']}: {r.get('error','')[-1500:]}")
        if tmo:
            lines.append(f"HARNESS-TIMEOUT: {len(tmo)} task(s) killed by the watchdog, first seed {tmo[0]['seed']}")
        if exit_code == runner.EXIT_OK:
            exit_code = runner.EXIT_TIMEOUT if (tmo and not err) else runner.EXIT_HARNESS

    wall = time.time() - t0
    runs = sum(r.get("runs", 0) for r in good)
    stats: Dict[str, int] = {}
    for r in good:
        for k, x in r.get("stats", {}).items():
            stats[k] = stats.get(k, 0) + x
    sigs = set()
    for r in good:
        for s in r.get("sigs", []):
            if s[-1]:
                sigs.add(tuple(s[:-1]))
    samples = [r["sample"] for r in good if "sample" in r][:3]
    classes: Dict[str, int] = {}
    for r in good:
        if "klass" in r:
            classes[r["klass"]] = classes.get(r["klass"], 0) + 1
    cov = {
        "evaluations": runs,
        "distinct_nontrivial": len(sigs),
        "rule": rule,
        "samples": samples,
        "seeds_run": len(good),
        "seeds_planned": n_seeds,
        "runs_per_hour": int(runs / max(wall, 1e-6) * 3600),
        "seeds_per_hour": int(len(good) / max(wall, 1e-6) * 3600),
        "reach_probes": stats,
        "workload_classes": classes,
        "violation_keys": counts,
        "hashseed_pairs_compared": hs_compared,
        "other_property_observations": others,
        "components_real": components["real"],
        "components_stub": components["stub"],
    }
    cov["fault_counts"] = {k.split(":", 1)[1]: v for k, v in stats.items() if k.startswith("fault:") or (k.startswith("solver:") and k != "solver:real")}
    cov["simulated_time"] = "no clock in this engine: progress is counted in logical steps (reach_probes)"
    if extra_cov:
        cov.update(extra_cov(good))
    if not os.environ.get("VERIF_REPO_SRC"):
        # (a sensitivity run against a scratch copy of the library is not evidence about /repo)
        runner.write_evidence(pid, tier, base_seed, level, cov, wall, n_viol, assumptions)
    for ln in lines:
        print(ln)
    print(f"{pid} {tier}: seeds={len(good)}/{n_seeds} runs={runs} distinct_nontrivial={len(sigs)} violations={n_viol} "
          f"known={sum(1 for k in mine if (pid, k) in known_keys)} wall={wall:.1f}s exit={exit_code}")
    return exit_code


def run_replay(pid: str, engine: Any, path: str, quiet: bool = False) -> int:
    rp = json.load(open(path))
    if "hashseeds" in rp:
        a = digests_under_hashseed(rp["engine"], rp["arg"], [rp["seed"]], rp["hashseeds"][0])
        b = digests_under_hashseed(rp["engine"], rp["arg"], [rp["seed"]], rp["hashseeds"][1])
        if a != b:
            print(f"VIOLATION property={pid} replay={path}")
            return runner.EXIT_VIOLATION
        print(f"{pid}: replay {path} did not reproduce a violation")
        return runner.EXIT_OK
    want = rp.get("violation", {}).get("class")
    found = [v for v in engine.replay_check(pid, rp) if v["property"] == pid and (want is None or v["class"] == want)]
    if found:
        print(f"VIOLATION property={pid} replay={path}")
        if not quiet:
            print(f"  class={found[0]['class']}: {found[0]['detail'][:600]}")
        return runner.EXIT_VIOLATION
    print(f"{pid}: replay {path} did not reproduce a violation")
    return runner.EXIT_OK
