"""Reference models: edge families of a block assembly, and the geometric-progression
cell-size law of blockMesh gradings.  Independent of classy_blocks."""

import math
from typing import Any, Dict, List, Optional, Sequence, Tuple

from . import hexref

# ---------------------------------------------------------------------------------------
# topology
# ---------------------------------------------------------------------------------------


class RefBlock:
    def __init__(self, name: str, corners: List[Any], chops: Optional[Dict[int, List[Dict[str, Any]]]] = None):
        self.name = name
        self.corners = list(corners)  # 8 point identifiers (hashable), block-local order
        self.chops: Dict[int, List[Dict[str, Any]]] = {0: [], 1: [], 2: []}
        if chops:
            for a, lst in chops.items():
                self.chops[int(a)] = list(lst)

    def edge(self, axis: int, k: int) -> Tuple[Any, Any]:
        u, v = hexref.AXIS_EDGES[axis][k]
        return self.corners[u], self.corners[v]


def cluster_points(positions: Sequence[Sequence[float]], tol: float = 1e-6) -> List[int]:
    """Point identity by position: ids such that points closer than tol share an id.
    Grid hashing; assumes distinct points are much farther apart than tol."""
    ids: List[int] = []
    cells: Dict[Tuple[int, int, int], List[int]] = {}
    reps: List[Sequence[float]] = []
    inv = 1.0 / (tol * 4)
    for p in positions:
        key = (int(math.floor(p[0] * inv)), int(math.floor(p[1] * inv)), int(math.floor(p[2] * inv)))
        found = None
        for dx in (-1, 0, 1):
            for dy in (-1, 0, 1):
                for dz in (-1, 0, 1):
                    for r in cells.get((key[0] + dx, key[1] + dy, key[2] + dz), ()):
                        q = reps[r]
                        if (p[0] - q[0]) ** 2 + (p[1] - q[1]) ** 2 + (p[2] - q[2]) ** 2 < tol * tol:
                            found = r
                            break
                    if found is not None:
                        break
                if found is not None:
                    break
            if found is not None:
                break
        if found is None:
            found = len(reps)
            reps.append(tuple(p))
            cells.setdefault(key, []).append(found)
        ids.append(found)
    return ids


class Assembly:
    """Blocks in add order (deleted ones removed) + union-find over (block, axis)."""

    def __init__(self, blocks: List[RefBlock]):
        self.blocks = blocks
        n = len(blocks)
        self.parent = list(range(3 * n))
        self.par = [0] * (3 * n)  # parity relative to parent
        # edge key -> [(block, axis, k, sense)] ; sense=+1 if the block runs lo->hi
        self.edge_users: Dict[frozenset, List[Tuple[int, int, int, int]]] = {}
        self.mobius = set()  # roots of families with inconsistent parity
        for bi, b in enumerate(blocks):
            for a in range(3):
                for k in range(4):
                    p, q = b.edge(a, k)
                    if p == q:
                        continue  # collapsed edge
                    key = frozenset((p, q))
                    lo = min(p, q, key=repr)
                    sense = 1 if p == lo else -1
                    self.edge_users.setdefault(key, []).append((bi, a, k, sense))
        for users in self.edge_users.values():
            b0, a0, _, s0 = users[0]
            for (b1, a1, _, s1) in users[1:]:
                self._union(3 * b0 + a0, 3 * b1 + a1, 0 if s0 == s1 else 1)

    def _find(self, x: int) -> Tuple[int, int]:
        p = 0
        path = []
        while self.parent[x] != x:
            path.append(x)
            p ^= self.par[x]
            x = self.parent[x]
        # compress
        root = x
        acc = 0
        for node in reversed(path):
            acc ^= self.par[node]
            self.parent[node] = root
            self.par[node] = acc
        return root, p

    def _union(self, x: int, y: int, rel: int) -> None:
        rx, px = self._find(x)
        ry, py = self._find(y)
        if rx == ry:
            if (px ^ py) != rel:
                self.mobius.add(rx)
            return
        self.parent[ry] = rx
        self.par[ry] = px ^ py ^ rel
        if ry in self.mobius:
            self.mobius.discard(ry)
            self.mobius.add(rx)

    def family_of(self, bi: int, axis: int) -> Tuple[int, int]:
        return self._find(3 * bi + axis)

    def families(self) -> Dict[int, List[Tuple[int, int, int]]]:
        fam: Dict[int, List[Tuple[int, int, int]]] = {}
        for bi in range(len(self.blocks)):
            for a in range(3):
                r, p = self._find(3 * bi + a)
                fam.setdefault(r, []).append((bi, a, p))
        # re-evaluate mobius roots after all unions (roots may have moved)
        self.mobius = {self._find(r)[0] for r in self.mobius}
        return fam

    def shared_edges(self):
        return {k: u for k, u in self.edge_users.items() if len(u) >= 2}


def explicit_count(chops: List[Dict[str, Any]]) -> Optional[int]:
    """Total count of a chopped direction if every section gives count= explicitly."""
    if not chops:
        return None
    total = 0
    for c in chops:
        if c.get("count") is None:
            return None
        total += max(int(c["count"]), 1)
    return total


class FamilyVerdict:
    def __init__(self) -> None:
        self.n_families = 0
        self.undefined: List[int] = []  # roots without any chop
        self.conflicts: List[Tuple[int, List[Tuple[str, int, int]]]] = []
        self.multi_source = 0
        self.unknown_count_multi = 0  # families with >=2 sources where some count is size-based
        self.expected: Dict[int, Optional[int]] = {}
        self.sources: Dict[int, List[Tuple[int, int, int]]] = {}

    @property
    def klass(self) -> str:
        if self.conflicts and self.undefined:
            return "conflict+undefined"
        if self.conflicts:
            return "conflict"
        if self.undefined:
            return "undefined"
        return "ok"


def judge_families(asm: Assembly) -> FamilyVerdict:
    v = FamilyVerdict()
    fams = asm.families()
    v.n_families = len(fams)
    for root, members in fams.items():
        sources = [(bi, a, p) for (bi, a, p) in members if asm.blocks[bi].chops[a]]
        v.sources[root] = sources
        if not sources:
            v.undefined.append(root)
            v.expected[root] = None
            continue
        if len(sources) >= 2:
            v.multi_source += 1
        counts = [(asm.blocks[bi].name, a, explicit_count(asm.blocks[bi].chops[a])) for (bi, a, _) in sources]
        known = [c for c in counts if c[2] is not None]
        if len(known) < len(counts) and len(counts) >= 2:
            v.unknown_count_multi += 1
        distinct = sorted({c[2] for c in known})
        if len(distinct) >= 2:
            v.conflicts.append((root, known))
            v.expected[root] = None
        else:
            # one explicit count (or none: size-based source, count read from the source block)
            v.expected[root] = distinct[0] if known else None
    return v


# ---------------------------------------------------------------------------------------
# grading law (blockMesh: each section is a geometric progression; expansion = last/first)
# ---------------------------------------------------------------------------------------


def section_cells(spec: List[Tuple[float, float, float]], total: int) -> Optional[List[int]]:
    """cells per section; the middle number of a triple is a fraction of (or the absolute)
    number of cells - normalised by the sum as blockMesh does. None if not integral."""
    s = sum(t[1] for t in spec)
    if s <= 0:
        return None
    out = []
    for t in spec:
        x = t[1] / s * total
        n = int(round(x))
        if abs(x - n) > 1e-6 or n < 1:
            return None
        out.append(n)
    if sum(out) != total:
        return None
    return out


def cell_sizes(length: float, spec: List[Tuple[float, float, float]], total: int) -> Optional[List[float]]:
    """Sequence of cell sizes along an edge of given length, first to last."""
    cells = section_cells(spec, total)
    if cells is None:
        return None
    lsum = sum(t[0] for t in spec)
    sizes: List[float] = []
    for (lf, _, exp), n in zip(spec, cells):
        seg = length * lf / lsum
        if n == 1 or abs(exp - 1.0) < 1e-12:
            sizes += [seg / n] * n
            continue
        if exp <= 0:
            return None
        r = exp ** (1.0 / (n - 1))
        first = seg * (1 - r) / (1 - r**n)
        sizes += [first * r**i for i in range(n)]
    return sizes


def seq_close(a: List[float], b: List[float], rel: float, scale: float) -> bool:
    if len(a) != len(b):
        return False
    return all(abs(x - y) <= rel * scale for x, y in zip(a, b))


# ---------------------------------------------------------------------------------------
# geometry of edges (reference lengths)
# ---------------------------------------------------------------------------------------


def dist(p, q) -> float:
    return math.sqrt(sum((a - b) ** 2 for a, b in zip(p, q)))


def arc_length(p0, p1, pm) -> float:
    """length of the circular arc from p0 to p1 through pm (three-point arc)"""
    a = [x - y for x, y in zip(p0, pm)]
    b = [x - y for x, y in zip(p1, pm)]
    # circumcentre via barycentric formula
    A, B, C = p0, pm, p1
    ab = [y - x for x, y in zip(A, B)]
    ac = [y - x for x, y in zip(A, C)]
    cr = [ab[1] * ac[2] - ab[2] * ac[1], ab[2] * ac[0] - ab[0] * ac[2], ab[0] * ac[1] - ab[1] * ac[0]]
    cr2 = sum(x * x for x in cr)
    if cr2 < 1e-24:
        return dist(p0, p1)
    ab2 = sum(x * x for x in ab)
    ac2 = sum(x * x for x in ac)
    # centre = A + ((ac2 * (ab x cr)) ... ) standard formula
    def cross(u, v):
        return [u[1] * v[2] - u[2] * v[1], u[2] * v[0] - u[0] * v[2], u[0] * v[1] - u[1] * v[0]]

    t1 = cross(cr, ab)
    t2 = cross(ac, cr)
    centre = [A[i] + (ac2 * t1[i] + ab2 * t2[i]) / (2 * cr2) for i in range(3)]
    R = dist(centre, A)
    # angle from A to C going through B: sum of the two sub-angles
    def ang(u, v):
        du = [x - c for x, c in zip(u, centre)]
        dv = [x - c for x, c in zip(v, centre)]
        d = sum(x * y for x, y in zip(du, dv)) / (R * R)
        return math.acos(max(-1.0, min(1.0, d)))

    return R * (ang(A, B) + ang(B, C))


def polyline_length(p0, p1, pts) -> float:
    seq = [p0] + list(pts) + [p1]
    return sum(dist(seq[i], seq[i + 1]) for i in range(len(seq) - 1))
