"""Process pool, watchdog, exit codes, evidence and replay files."""

import faulthandler
import json
import multiprocessing
import os
import signal
import sys
import time
import traceback
from concurrent.futures import ProcessPoolExecutor, as_completed
from typing import Any, Callable, Dict, List, Optional

VERIF = os.path.dirname(os.path.dirname(os.path.abspath(__file__)))
EXIT_OK, EXIT_VIOLATION, EXIT_HARNESS, EXIT_TIMEOUT = 0, 1, 2, 3


class HarnessTimeout(BaseException):
    pass


def _alarm(signum, frame):
    raise HarnessTimeout()


def _run_chunk(fn: Callable, seeds: List[int], arg: Any, per_task_s: int) -> List[Dict[str, Any]]:
    out = []
    signal.signal(signal.SIGALRM, _alarm)
    for s in seeds:
        signal.alarm(per_task_s)
        try:
            r = fn(s, arg)
        except HarnessTimeout:
            r = {"seed": s, "harness": "timeout"}
        except BaseException as e:  # harness error, kept apart from verdicts
            r = {"seed": s, "harness": "error", "error": "".join(traceback.format_exception(type(e), e, e.__traceback__))[-4000:]}
        finally:
            signal.alarm(0)
        out.append(r)
    return out


def run_pool(fn: Callable, seeds: List[int], arg: Any = None, workers: Optional[int] = None, chunk: int = 4,
             per_task_s: int = 120, wall_budget_s: Optional[float] = None) -> List[Dict[str, Any]]:
    """fn(seed, arg) -> dict.  Results are returned in seed order.  Tasks that do not start
    before wall_budget_s are skipped (reported as skipped, never as a verdict)."""
    workers = workers or int(os.environ.get("VERIF_WORKERS", "0")) or min(16, os.cpu_count() or 1)
    chunks = [seeds[i : i + chunk] for i in range(0, len(seeds), chunk)]
    results: Dict[int, Dict[str, Any]] = {}
    t0 = time.time()
    if workers == 1:
        for ch in chunks:
            if wall_budget_s is not None and time.time() - t0 > wall_budget_s:
                break
            for r in _run_chunk(fn, ch, arg, per_task_s):
                results[r["seed"]] = r
    else:
        ctx = multiprocessing.get_context("fork")
        with ProcessPoolExecutor(max_workers=workers, mp_context=ctx) as ex:
            futs = {}
            it = iter(chunks)
            pending = set()

            def submit_next():
                try:
                    ch = next(it)
                except StopIteration:
                    return False
                f = ex.submit(_run_chunk, fn, ch, arg, per_task_s)
                futs[f] = ch
                pending.add(f)
                return True

            for _ in range(workers * 2):
                if not submit_next():
                    break
            while pending:
                done = next(as_completed(pending))
                pending.discard(done)
                try:
                    for r in done.result():
                        results[r["seed"]] = r
                except BaseException as e:
                    for s in futs[done]:
                        results[s] = {"seed": s, "harness": "error", "error": f"worker died: {e!r}"}
                if wall_budget_s is None or time.time() - t0 <= wall_budget_s:
                    submit_next()
    return [results[s] for s in seeds if s in results]


def write_json(path: str, obj: Any) -> None:
    os.makedirs(os.path.dirname(path), exist_ok=True)
    tmp = path + ".tmp"
    with open(tmp, "w") as f:
        json.dump(obj, f, indent=1, sort_keys=False, default=str)
    os.replace(tmp, path)


def write_evidence(pid: str, tier: str, seed: int, level: str, coverage: Dict[str, Any], wall_s: float,
                   violations: int, assumptions: List[str]) -> str:
    path = os.path.join(VERIF, "evidence", f"{pid}.json")
    write_json(path, {
        "property_id": pid, "tier": tier, "seed": seed, "level": level,
        "coverage": coverage, "assumptions": assumptions, "wall_s": round(wall_s, 2), "violations": violations,
    })
    return path


def load_known_findings() -> Dict[str, Any]:
    p = os.path.join(VERIF, "known_findings.json")
    if not os.path.exists(p):
        return {"findings": [], "fixed": []}
    return json.load(open(p))


def reexec_with_hashseed(value: str = "0") -> None:
    """Main entry re-executes itself under a fixed PYTHONHASHSEED (fresh interpreter)."""
    if os.environ.get("PYTHONHASHSEED") != value:
        env = dict(os.environ)
        env["PYTHONHASHSEED"] = value
        os.execve(sys.executable, [sys.executable] + sys.argv, env)
