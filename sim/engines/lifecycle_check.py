"""C12 engine: histories over the stateful Mesh, with crashes inside assemble and I/O
faults in write as first-class operations.

Durable state is kept by the harness as its own program log (never read back from live
objects); the oracle after every successful write is the file written by a fresh Mesh
rebuilt from that log in a new object graph."""

import copy
import errno
from typing import Any, Dict, List, Optional, Tuple

from .. import foam, hexref, models, seams
from ..program import Interp
from ..streams import Stream, digest, h64
from . import propagation as P
from . import vertices_check as VC

DICT = "case/system/blockMeshDict"
SELFTEST_ARG = {"pid": "C12", "faults": "mixed", "tier": "quick"}
TIERS = {"quick": (2400, "mixed", 100), "thorough": (30000, "enumerate", 1500)}
NAMES = ["inlet", "outlet", "walls", "sym"]
KINDS = ["wall", "patch", "symmetry", "empty"]

ASSEMBLE_STEPS = ("VertexList.add", "EdgeList.add_from_operation", "BlockList.add", "PatchList.add", "FaceList.add")


# ---------------------------------------------------------------------------------------
# workload: base model + history
# ---------------------------------------------------------------------------------------


def gen_base(rs: Stream) -> Dict[str, Any]:
    n = rs.weighted([(2, 3), (3, 4), (4, 3), (5, 2)])
    cells = P.gen_cells(rs.sub("cells"), n, (0.85, 0.1, 0.05))
    spacing = [rs.uniform(0.7, 1.5) for _ in range(3)]
    jit = rs.pick([0.0, 0.08])
    # some models live far from the origin (millimetres, geo-referenced coordinates)
    offset = [0.0, 0.0, 0.0]
    if rs.chance(0.2):
        offset = [round(rs.uniform(500, 8000), 1), round(rs.uniform(-2000, 2000), 1), round(rs.uniform(0, 100), 1)]
    points: Dict[str, List[float]] = {}
    blocks = []
    for i, c in enumerate(cells):
        corners = []
        for off in hexref.CORNER_POS:
            node = (c[0] + off[0], c[1] + off[1], c[2] + off[2])
            pid = f"n{node[0]}_{node[1]}_{node[2]}"
            if pid not in points:
                jr = Stream(rs.key, "jit", pid)
                points[pid] = [round(offset[k] + node[k] * spacing[k] + (jr.uniform(-jit, jit) if jit else 0.0), 6) for k in range(3)]
            corners.append(pid)
        rot = hexref.IDENTITY if rs.chance(0.5) else rs.randrange(24)
        rc = hexref.renumber(corners, rot)
        b: Dict[str, Any] = {"name": f"b{i}", "corners": rc, "chops": [], "patches": [], "zone": "", "projects": [], "edges": []}
        b["rot"] = rot
        for side in hexref.SIDES:
            if rs.chance(0.35):
                b["patches"].append({"side": side, "name": rs.pick(NAMES)})
        if rs.chance(0.25):
            b["zone"] = rs.pick(["fluid", "solid"])
        if rs.chance(0.2):
            b["projects"].append({"side": rs.pick(list(hexref.SIDES)), "label": "terrain", "edges": rs.chance(0.5), "points": rs.chance(0.5)})
        blocks.append(b)
    # interfaces: two blocks that share a face sometimes carry a patch on either side of it, so that a
    # merged pair (ifa, ifb) really duplicates vertices there
    for i in range(len(blocks)):
        for j in range(i + 1, len(blocks)):
            common = set(blocks[i]["corners"]) & set(blocks[j]["corners"])
            if len(common) == 4 and rs.chance(0.4):
                for b, nm in ((blocks[i], "ifa"), (blocks[j], "ifb")):
                    side = [sd for sd in hexref.SIDES if {b["corners"][c] for c in hexref.SIDE_CORNERS[sd]} == common][0]
                    b["patches"] = [p for p in b["patches"] if p["side"] != side] + [{"side": side, "name": nm}]
    # chops: every edge family gets at least one chopped member; the others rely on propagation
    asm = models.Assembly([models.RefBlock(b["name"], b["corners"]) for b in blocks])
    sparse = rs.chance(0.4)
    for root, members in sorted(asm.families().items()):
        members = sorted(members)
        chosen = [m for m in members if not sparse or rs.chance(0.7)] or [rs.pick(members)]
        g_count = rs.randint(2, 4)
        for (bi, a, par) in chosen:
            args: Dict[str, Any] = {"count": g_count}
            if rs.chance(0.3):
                args["c2c_expansion"] = 1.0
            blocks[bi]["chops"].append({"axis": a, "args": args})
    # a curved edge or two: three-point arcs are declared by every owner of the edge (symmetric); arcs given
    # by an origin that is not quite equidistant from the two ends (the library adjusts it) and helical
    # angle-and-axis arcs are declared by the first owner only, in its own sense
    curved = {}
    for b in blocks:
        for slot, (c1, c2) in enumerate(P._slots()):
            key = tuple(sorted((b["corners"][c1], b["corners"][c2])))
            er = Stream(rs.key, "arc", key)
            if er.chance(0.06) and key not in curved:
                Pp, Q = points[key[0]], points[key[1]]
                mid = [(x + y) / 2 for x, y in zip(Pp, Q)]
                kind = er.weighted([("arc", 6), ("origin", 3), ("angle", 2)])
                if kind == "arc":
                    curved[key] = {"kind": "arc", "data": [round(mid[0] + 0.07, 6), round(mid[1] + 0.05, 6), round(mid[2] + 0.06, 6)]}
                elif kind == "origin":
                    chord = [y - x for x, y in zip(Pp, Q)]
                    off = [er.uniform(-1, 1) for _ in range(3)]
                    curved[key] = {"kind": "origin", "owner": b["name"], "c": (c1, c2),
                                   "data": [round(mid[k] + 0.9 * off[k] + er.uniform(-0.08, 0.08) * chord[k], 6) for k in range(3)]}
                else:
                    curved[key] = {"kind": "angle", "owner": b["name"], "c": (c1, c2), "angle": round(er.uniform(0.3, 1.2), 4),
                                   "axis": [round(er.uniform(-1, 1), 4) for _ in range(3)]}
    for b in blocks:
        for (c1, c2) in P._slots():
            key = tuple(sorted((b["corners"][c1], b["corners"][c2])))
            cv = curved.get(key)
            if cv is None:
                continue
            if cv["kind"] == "arc":
                b["edges"].append({"c1": c1, "c2": c2, "kind": "arc", "data": cv["data"]})
            elif cv["owner"] == b["name"] and cv["c"] == (c1, c2):
                e = {"c1": c1, "c2": c2, "kind": cv["kind"]}
                e.update({k: v for k, v in cv.items() if k in ("data", "angle", "axis")})
                b["edges"].append(e)
    return {"points": points, "blocks": blocks}


class IllFormed(Exception):
    """the history violates a precondition of the lifecycle model (not a verdict)"""


SETUP_OPS = {"hex", "chop", "patch", "zone", "project_side", "geometry", "shape", "shape_chop", "shape_patch", "zoo", "sub_chop", "sub_patch"}


class Model:
    """The lifecycle reference model.  Durable state: construction recipes, add order,
    deletions, merges, default patch, patch modifications, geometry, committed corner
    positions.  Volatile: assembled?, which operations have a block, stale?, pending
    vertex moves.  Everything is plain data derived from the history steps alone."""

    def __init__(self) -> None:
        self.recipes: Dict[str, Dict[str, Any]] = {}
        self.pos: Dict[str, List[List[float]]] = {}
        self.added: List[str] = []
        self.deleted: List[str] = []
        self.shapes: Dict[str, Dict[str, Any]] = {}  # multi-operation entities: construction ops, number of operations
        self.deleted_sub: List[Tuple[str, int]] = []
        self.merges: List[List[str]] = []
        self.default: Optional[Dict[str, str]] = None
        self.patch_mods: Dict[str, Dict[str, Any]] = {}
        self.geometry: List[Dict[str, Any]] = []
        # volatile
        self.assembled = False
        self.assembled_ops: List[str] = []
        self.assembled_merges: List[List[str]] = []
        self.stale_reasons: set = set()
        self.pending: Dict[Tuple[str, int], List[float]] = {}
        self.uncertain: set = set()  # deleted operations whose block was moved and back-ported (their own points: not stated)

    @property
    def stale(self) -> bool:
        return bool(self.stale_reasons)

    @property
    def movable(self) -> bool:
        """vertices may be moved and back-ported: assembled, and nothing but deletions happened
        since (the deleted operation's block is still there until the next assembly)"""
        return self.assembled and self.stale_reasons <= {"delete"}

    def live_ops(self) -> List[str]:
        """plain operations that are added and not deleted"""
        return [n for n in self.added if n not in self.deleted and n in self.recipes]

    def flat_live(self) -> List[str]:
        """every operation that gets a block, in block order (shapes flattened)"""
        out = []
        for n in self.added:
            if n in self.recipes:
                if n not in self.deleted:
                    out.append(n)
            else:
                out += [f"{n}[{j}]" for j in range(self.shapes[n]["n_ops"]) if (n, j) not in self.deleted_sub]
        return out

    def used_patch_names(self) -> List[str]:
        names = {p["name"] for n in self.live_ops() for p in self.recipes[n]["patches"]}
        for n in self.added:
            if n in self.shapes:
                names.update(self.shapes[n]["patch_names"])
        return sorted(names)

    def _assemble(self) -> None:
        self.assembled = True
        self.assembled_ops = self.flat_live()
        self.assembled_merges = [list(m) for m in self.merges]
        self.stale_reasons = set()

    def _commit_pending(self) -> None:
        for (nn, cc), to in self.pending.items():
            if nn in self.shapes:
                # a named point of a multi-operation entity (its centre / radius point)
                sh = self.shapes[nn]
                sh["moves"].append({"pos": list(sh["points"][cc]), "to": list(to)})
                sh["points"][cc] = list(to)
            else:
                self.pos[nn][cc] = list(to)
        self.pending = {}

    def _clear(self) -> None:
        self.assembled = False
        self.assembled_ops = []
        self.stale_reasons = set()
        self.pending = {}

    def partition(self) -> Dict[Tuple[str, int], Any]:
        """(op, corner) -> vertex key over the assembled operations"""
        slaves = {s for (_, s) in self.assembled_merges}
        allpos = []
        plain = [n for n in self.assembled_ops if n in self.recipes]  # shapes live elsewhere and are never moved
        for n in plain:
            allpos += self.pos[n]
        ids = models.cluster_points(allpos, tol=1e-6) if allpos else []
        out = {}
        k = 0
        for n in plain:
            pats = {p["side"]: p["name"] for p in self.recipes[n]["patches"]}
            for c in range(8):
                touching = {pats.get(s) for s in VC.SIDE_OF_CORNER[c]} - {None}
                out[(n, c)] = (ids[k], tuple(sorted(touching & slaves)))
                k += 1
        return out

    def fresh_program(self, side: bool = False) -> Dict[str, Any]:
        """the model as it stands, built once; side=True: only the entities and the geometry (what a
        second Mesh object gets when the same entities are added to it and nothing else is declared)"""
        ops: List[Dict[str, Any]] = []
        for n in self.added:
            if n in self.shapes:
                ops += [dict(x) for x in self.shapes[n]["ops"]]
                if self.shapes[n]["moves"]:
                    # the entity as it stands after its committed vertex moves: taken through a
                    # scratch mesh of its own (assemble, move, backport), then used in a new mesh
                    ops.append({"op": "settle", "target": n, "moves": [dict(mv) for mv in self.shapes[n]["moves"]]})
                continue
            r = self.recipes[n]
            ops.append({"op": "hex", "name": n, "corners": [list(p) for p in self.pos[n]], "edges": list(r["edges"])})
            ops += [dict(x) for x in r["chops"]]
            ops += [dict(x) for x in r["patches_ops"]]
            ops += [dict(x) for x in r["other"]]
        ops += [dict(g) for g in self.geometry]
        for n in self.added:
            ops.append({"op": "add", "target": n})
        if side:
            ops.append({"op": "write", "path": DICT})
            return {"ops": ops}
        for n in self.deleted:
            ops.append({"op": "delete", "target": n})
        for (n, j) in self.deleted_sub:
            ops.append({"op": "delete_sub", "target": n, "index": j})
        for m, s in self.merges:
            ops.append({"op": "merge", "master": m, "slave": s})
        if self.default:
            ops.append({"op": "default_patch", "name": self.default["name"], "kind": self.default["kind"]})
        for name, mod in self.patch_mods.items():
            ops.append({"op": "modify_patch", "name": name, "kind": mod["kind"], "settings": mod.get("settings")})
        ops.append({"op": "write", "path": DICT})
        return {"ops": ops}

    def apply(self, st: Dict[str, Any]) -> Dict[str, Any]:
        """advance by one history step; returns the expectation attached to that step"""
        op = st["op"]
        ann: Dict[str, Any] = {}
        if getattr(self, "crashed_backport", False) and op != "backport":
            raise IllFormed("after a backport interrupted in its first phase the only recovery is to backport again")
        if op in ("shape", "zoo"):
            self.shapes[st["name"]] = {"ops": [st], "n_ops": st["n_ops"], "patch_names": set(), "moves": [],
                                       "points": {k: list(v) for k, v in (st.get("named_points") or {}).items()}}
        elif op in ("shape_chop", "shape_patch", "sub_chop", "sub_patch"):
            self.shapes[st["target"]]["ops"].append(st)
            if op in ("shape_patch", "sub_patch"):
                self.shapes[st["target"]]["patch_names"].add(st["name"])
            if self.assembled and st["target"] in self.added:
                self.stale_reasons.add("attr")
        elif op == "delete_sub":
            if st["target"] not in self.added or (st["target"], st["index"]) in self.deleted_sub or len(self.flat_live()) < 2:
                raise IllFormed("delete_sub")
            self.deleted_sub.append((st["target"], st["index"]))
            if self.assembled:
                self.stale_reasons.add("delete")
        elif op == "hex":
            self.recipes[st["name"]] = {"edges": list(st.get("edges", [])), "chops": [], "patches": [], "patches_ops": [], "other": []}
            self.pos[st["name"]] = [list(p) for p in st["corners"]]
        elif op == "zone" and st["target"] in self.shapes:
            self.shapes[st["target"]]["ops"].append(st)
        elif op == "chop":
            self.recipes[st["target"]]["chops"].append(st)
            if self.assembled and st["target"] in self.added:
                self.stale_reasons.add("chop")
        elif op == "patch":
            r = self.recipes[st["target"]]
            r["patches"] = [p for p in r["patches"] if p["side"] != st["side"]] + [{"side": st["side"], "name": st["name"]}]
            r["patches_ops"].append(st)
            if self.assembled and st["target"] in self.added:
                self.stale_reasons.add("patch")
        elif op in ("zone", "project_side"):
            self.recipes[st["target"]]["other"].append(st)
            if self.assembled and st["target"] in self.added:
                self.stale_reasons.add("attr")
        elif op in ("geometry", "add_geometry"):
            # (a user's declaration: no assembly creates it and none may take it away)
            self.geometry.append(dict(st, op="geometry"))
        elif op == "add":
            if st["target"] in self.added or (st["target"] not in self.recipes and st["target"] not in self.shapes):
                raise IllFormed("add")
            self.added.append(st["target"])
            if self.assembled:
                self.stale_reasons.add("add")
        elif op == "delete":
            if st["target"] not in self.live_ops() or len(self.live_ops()) < 2:
                raise IllFormed("delete")
            self.deleted.append(st["target"])
            if self.assembled:
                self.stale_reasons.add("delete")
        elif op == "merge":
            self.merges.append([st["master"], st["slave"]])
            if self.assembled:
                self.stale_reasons.add("merge")
        elif op == "default_patch":
            self.default = {"name": st["name"], "kind": st["kind"]}
        elif op == "modify_patch":
            if st["name"] not in self.used_patch_names():
                raise IllFormed("modify_patch on a patch no live operation uses")
            prev = self.patch_mods.get(st["name"], {})
            self.patch_mods[st["name"]] = {"kind": st["kind"], "settings": st["settings"] if st.get("settings") is not None else prev.get("settings")}
        elif op == "assemble":
            if self.assembled or not self.flat_live():
                raise IllFormed("assemble")
            self._assemble()
        elif op == "crash_in_assemble":
            if self.assembled or not self.flat_live():
                raise IllFormed("crash_in_assemble")
            # half-built volatile state; the history must clear next
            self.assembled = True
            self.stale_reasons.add("crash")
        elif op == "crash_in_backport":
            # backport() is interrupted at its k-th internal step: steps 1..2n write the moved
            # positions into the operations' faces (two per block), later steps are the
            # re-assembly.  Recovery: backport again (phase 1) or clear + assemble (phase 2).
            if not self.movable:
                raise IllFormed("crash_in_backport")
            n = len(self.assembled_ops)
            if not (1 <= st["at"] <= 2 * n + 8):
                raise IllFormed("crash point outside backport")
            if st["at"] <= 2 * n:
                ann["phase"] = 1  # still assembled, moves still pending, some operations already updated
                self.crashed_backport = True
            else:
                ann["phase"] = 2
                if self.pending:
                    self.uncertain.update(n for n in self.deleted if n in self.assembled_ops)
                self._commit_pending()
                self.assembled = True
                self.stale_reasons.add("crash")
        elif op == "clear":
            if getattr(self, "crashed_backport", False):
                raise IllFormed("clear after a backport interrupted while updating operations would tear the model")
            self._clear()
        elif op == "move_corner":
            if not self.movable or st["target"] not in self.assembled_ops or st["target"] not in self.recipes:
                raise IllFormed("move")
            part = self.partition()
            key = part[(st["target"], st["corner"])]
            for (nn, cc), kk in part.items():
                if kk == key:
                    if list(st["to"]) == list(self.pos[nn][cc]):
                        self.pending.pop((nn, cc), None)  # moved back to where the model has it
                    else:
                        self.pending[(nn, cc)] = list(st["to"])
            ann["block_index"] = self.assembled_ops.index(st["target"])
        elif op == "move_shape_point":
            sh = self.shapes.get(st["target"])
            if not self.movable or sh is None or st["target"] not in self.added or st["which"] not in sh["points"] \
                    or any(n == st["target"] for (n, _) in self.deleted_sub):
                raise IllFormed("move_shape_point")
            ann["at"] = list(self.pending.get((st["target"], st["which"])) or sh["points"][st["which"]])
            if list(st["to"]) == list(sh["points"][st["which"]]):
                self.pending.pop((st["target"], st["which"]), None)
            else:
                self.pending[(st["target"], st["which"])] = list(st["to"])
        elif op == "backport":
            if not self.movable:
                raise IllFormed("backport")
            self.crashed_backport = False
            had_block = list(self.assembled_ops)
            if self.pending:
                self.uncertain.update(n for n in self.deleted if n in had_block)
            self._commit_pending()
            self._clear()
            self._assemble()
            ann["expect_points"] = {n: [list(p) for p in pts] for n, pts in self.pos.items()}
            ann["deleted"] = list(self.deleted)
            ann["had_block"] = had_block
        elif op == "translate_op":
            # the user moves one whole operation (only ones without curved edges: their recipe stays as it is);
            # on an assembled mesh that is an edit like any other: clear before the next write
            n = st["target"]
            if n not in self.recipes or self.recipes[n]["edges"] or self.pending or getattr(self, "crashed_backport", False) or n in self.uncertain:
                raise IllFormed("translate_op")
            self.pos[n] = [[p[k] + st["d"][k] for k in range(3)] for p in self.pos[n]]
            if self.assembled and n in self.added:
                self.stale_reasons.add("attr")
        elif op == "side_write":
            # the same entities, as they stand, are added to a second Mesh object (nothing else is declared
            # there) and written: what the first Mesh did to itself (delete, merge, patch changes) stays there
            if self.pending or not self.added or self.uncertain:
                raise IllFormed("side_write")
            ann["expect"] = self.fresh_program(side=True)
            ann["added"] = list(self.added)
            ann["geometry"] = [dict(g) for g in self.geometry]
        elif op == "write_transient":
            # a write while vertices are displaced: what it produces is not stated, only that it
            # must not damage anything - it may fail in grading; the next checked write tells
            if not self.movable or self.stale:
                raise IllFormed("write_transient")
        elif op == "write":
            if self.stale or self.pending or not self.flat_live():
                raise IllFormed("write")
            if not self.assembled:
                self._assemble()
            ann["expect"] = self.fresh_program()
        else:
            raise IllFormed("unknown op " + op)
        return ann


def annotate(steps: List[Dict[str, Any]]) -> List[Dict[str, Any]]:
    m = Model()
    return [m.apply(st) for st in steps]


def construction_ops(b: Dict[str, Any], points, skip_chop: Optional[int] = None) -> List[Dict[str, Any]]:
    name = b["name"]
    ops: List[Dict[str, Any]] = [{"op": "hex", "name": name, "corners": [list(points[p]) for p in b["corners"]], "edges": list(b["edges"])}]
    for ci, ch in enumerate(b["chops"]):
        if skip_chop == ci:
            continue
        ops.append({"op": "chop", "target": name, "axis": ch["axis"], "args": dict(ch["args"])})
    for p in b["patches"]:
        ops.append({"op": "patch", "target": name, "side": p["side"], "name": p["name"]})
    if b["zone"]:
        ops.append({"op": "zone", "target": name, "name": b["zone"]})
    for pr in b["projects"]:
        ops.append({"op": "project_side", "target": name, "side": pr["side"], "label": pr["label"], "edges": pr["edges"], "points": pr["points"]})
    return ops


_NOPS_CACHE: Dict[str, int] = {}


def _count_operations(st: Dict[str, Any]) -> int:
    """how many operations the shape consists of (asked from the library once per kind)"""
    key = st["kind"] + str(st["args"].get("n", ""))
    if key not in _NOPS_CACHE:
        it = Interp({"ops": []})
        it.step(0, {k: v for k, v in st.items() if k != "n_ops"})
        _NOPS_CACHE[key] = len(it.env[st["name"]].operations)
    return _NOPS_CACHE[key]


def gen_history(seed: int, faults: str) -> Dict[str, Any]:
    """Generates an explicit history by walking the lifecycle model (preconditions from it)."""
    rs = Stream(seed, "workload", "C12")
    base = gen_base(rs.sub("base"))
    m = Model()
    steps: List[Dict[str, Any]] = []

    def do(st):
        m.apply(st)
        steps.append(st)

    names = [b["name"] for b in base["blocks"]]
    by = {b["name"]: b for b in base["blocks"]}
    uses_geometry = any(b["projects"] for b in base["blocks"])
    scenario = rs.weighted([("plain", 5), ("grade_fail", 1)])
    p_fault = 0.0 if faults == "none" else rs.pick([0.0, 0.15, 0.3])
    victim, victim_chop = None, None
    if scenario == "grade_fail":
        # a chop that is the only source of its edge family: without it grading must fail
        asm = models.Assembly([models.RefBlock(b["name"], b["corners"], {a: [c["args"] for c in b["chops"] if c["axis"] == a] for a in range(3)})
                               for b in base["blocks"]])
        sole = []
        for root, members in sorted(asm.families().items()):
            srcs = [(bi, a) for (bi, a, _) in members if asm.blocks[bi].chops[a]]
            if len(srcs) == 1:
                sole.append(srcs[0])
        if sole:
            bi, a = rs.pick(sole)
            victim = names[bi]
            victim_chop = [i for i, c in enumerate(by[victim]["chops"]) if c["axis"] == a][0]
        else:
            scenario = "plain"
    # transient grading failure: one block direction is chopped by count and a first-cell size just
    # below the average edge length; shortening one of its edges makes that unrealisable
    transient = None
    if scenario == "plain" and rs.chance(0.2):
        cands = [(b, ch) for b in base["blocks"] for ch in b["chops"] if ch["axis"] in (1, 2)]
        if cands:
            b, ch = rs.pick(cands)
            pts = [base["points"][p] for p in b["corners"]]
            lens = [models.dist(pts[u], pts[v]) for (u, v) in hexref.AXIS_EDGES[ch["axis"]]]
            avg = sum(lens) / 4
            u, v = hexref.AXIS_EDGES[ch["axis"]][0]
            if rs.chance(0.5):
                # the axis-level grading (average length) cannot realise the chop any more
                ch["args"] = {"count": ch["args"]["count"], "start_size": round(0.96 * avg, 6)}
                frac = 0.4
            else:
                # the axis still can, its first edge cannot (the chop keeps its first-cell size on every edge)
                ch["args"] = {"count": ch["args"]["count"], "start_size": round(0.7 * min(lens), 6), "preserve": "start_size"}
                frac = 0.55
            transient = {"block": b["name"], "corner": v, "from": list(pts[v]),
                         "to": [round(pts[v][k] + frac * (pts[u][k] - pts[v][k]), 6) for k in range(3)]}
    for n in names:
        for st in construction_ops(by[n], base["points"], victim_chop if n == victim else None):
            do(st)
    if uses_geometry:
        do({"op": "geometry", "name": "terrain", "props": ["type triSurfaceMesh", "name terrain", 'file "terrain.stl"']})
    shape_name = None
    if rs.chance(0.15):
        # one multi-operation entity, far away from the lattice (never moved, may lose an operation)
        shape_name = "s0"
        kind = rs.pick(["cylinder", "ring", "hemisphere", "zoo", "zoo"])
        o = [0.0, 40.0, 0.0]
        zoo_ent = None
        if kind == "zoo":
            # one of the less common multi-operation entities; every operation chopped itself (plain counts that agree
            # within each edge family), so that deleted operations and merged patches cannot leave a direction undefined
            from . import zoo

            zoo_ent = zoo.entity_with_chops(rs.sub("zoo"), 0, mode="complete", offset=[0.0, 40.0, 0.0], sources="all",
                                            kinds=["elbow", "semicylinder", "revolvedring", "rstack", "estack", "extruded", "revolved", "lofted"])
            if zoo_ent[3] is None or zoo_ent[4]["coincident_spread"] > 1e-11:
                zoo_ent, kind = None, "cylinder"
        if zoo_ent is not None:
            zops, zchops, _, zsnap, _ = zoo_ent
            do(dict(zops[0], n_ops=len(zsnap)))
            for ch in zchops:
                do(ch)
            for j in range(len(zsnap)):
                for side in hexref.SIDES:
                    if rs.chance(0.1):
                        do({"op": "sub_patch", "target": "s0", "index": j, "side": side, "name": rs.pick(NAMES)})
        elif kind == "cylinder":
            st = {"op": "shape", "name": "s0", "kind": "cylinder", "args": {"p1": o, "p2": [0, 40, 1.5], "r": [1.0, 40, 0]}}
        elif kind == "ring":
            st = {"op": "shape", "name": "s0", "kind": "ring", "args": {"p1": o, "p2": [0, 40, 1.0], "r_out": [1.0, 40, 0], "r_in": 0.5, "n": rs.pick([4, 8])}}
        else:
            st = {"op": "shape", "name": "s0", "kind": "hemisphere", "args": {"c": o, "r": [1.0, 40, 0], "n": [0, 0, 1]}}
        if zoo_ent is None:
            st["n_ops"] = _count_operations(st)
            if kind in ("hemisphere", "cylinder"):
                st["named_points"] = {"c": list(o), "r": [1.0, 40.0, 0.0]}
            do(st)
            for w in ("axial", "radial", "tangential"):
                do({"op": "shape_chop", "target": "s0", "which": w, "args": {"count": rs.randint(2, 4)}})
            if rs.chance(0.6):
                do({"op": "shape_patch", "target": "s0", "which": "outer", "name": rs.pick(NAMES)})
            if rs.chance(0.4):
                do({"op": "shape_patch", "target": "s0", "which": "start", "name": rs.pick(NAMES)})
        names = names + ["s0"]
    order = rs.shuffled(names)
    first = rs.randint(1, len(names))
    if transient is not None and transient["block"] not in order[:first]:
        order.remove(transient["block"])
        order.insert(0, transient["block"])
    if victim is not None and victim not in order[:first]:
        order.remove(victim)
        order.insert(0, victim)
    for n in order[:first]:
        do({"op": "add", "target": n})
    pool = order[first:]
    L = rs.randint(3, 14)
    grade_fixed = scenario != "grade_fail"
    for _ in range(L):
        cand = []
        can_write = not m.stale and not m.pending
        if pool:
            cand.append(("add", 2))
        if len(m.live_ops()) > 1 and (victim is None or grade_fixed):
            cand.append(("delete", 2))
        if shape_name in m.added and len(m.deleted_sub) < 2 and (victim is None or grade_fixed):
            cand.append(("delete_sub", 0.7))
        if not m.assembled:
            cand.append(("assemble", 3))
            if p_fault:
                cand.append(("crash_in_assemble", 10 * p_fault))
        if transient is not None and m.movable and not m.stale and not m.pending and transient["block"] in m.assembled_ops \
                and transient["block"] not in m.deleted:
            cand.append(("transient_failure", 4))
        if m.movable:
            cand.append(("move", 3))
            cand.append(("backport", 3))
            if shape_name in m.added and m.shapes[shape_name]["points"] and not m.deleted_sub:
                cand.append(("move_shape", 2))
            if p_fault:
                cand.append(("crash_in_backport", 6 * p_fault))
        cand.append(("clear", 2))
        if m.added and not m.pending and not m.uncertain and not getattr(m, "crashed_backport", False):
            cand.append(("side_write", 1.2))
        if not m.pending and (victim is None or grade_fixed) and transient is None:
            cand.append(("translate_op", 0.8))
        if m.used_patch_names():
            cand.append(("modify_patch", 2))
        cand.append(("default_patch", 1))
        cand.append(("merge", 1))
        cand.append(("add_geometry", 0.7))
        if can_write:
            cand.append(("write", 5))
            if p_fault:
                cand.append(("write_fail", 12 * p_fault))
        kind = rs.weighted(cand)
        if kind == "add_geometry":
            gname = rs.pick(["extra", "pipe", "terrain", "hull"])
            do({"op": "add_geometry", "name": gname, "props": [rs.pick(["type triSurfaceMesh", "type searchablePlane"]), f"name {gname}", f'file "{gname}_{rs.randint(1, 3)}.stl"']})
            continue
        if kind == "add":
            do({"op": "add", "target": pool.pop(0)})
        elif kind == "delete":
            do({"op": "delete", "target": rs.pick(m.live_ops())})
        elif kind == "delete_sub":
            free = [j for j in range(m.shapes[shape_name]["n_ops"]) if (shape_name, j) not in m.deleted_sub]
            do({"op": "delete_sub", "target": shape_name, "index": rs.pick(free)})
        elif kind == "assemble":
            do({"op": "assemble"})
        elif kind == "crash_in_assemble":
            do({"op": "crash_in_assemble", "at": rs.randint(1, 13 * max(1, len(m.flat_live())))})
            do({"op": "clear"})
        elif kind == "move":
            movable_ops = [x for x in m.assembled_ops if x in m.recipes]
            if not movable_ops:
                continue
            n = rs.pick([x for x in movable_ops if x not in m.deleted] or movable_ops)
            c = rs.randrange(8)
            # (often an end of a curved edge: what the edge is derived from must not drift with the moves)
            ends = [(x, e[k]) for x in movable_ops if x not in m.deleted for e in m.recipes[x]["edges"] if e["kind"] != "arc" for k in ("c1", "c2")]
            if ends and rs.chance(0.5):
                n, c = rs.pick(ends)
            base_pos = m.pending.get((n, c)) or m.pos[n][c]
            amp = rs.pick([0.08, 0.08, 0.01, 0.002])  # adjustments are not always large
            to = [round(base_pos[k] + rs.uniform(-amp, amp), 6) for k in range(3)]
            do({"op": "move_corner", "target": n, "corner": c, "to": to})
        elif kind == "move_shape":
            # the vertex at the entity's centre or radius point (its own geometry is derived from those)
            which = rs.pick(["c", "c", "r"])
            cur = m.pending.get((shape_name, which)) or m.shapes[shape_name]["points"][which]
            do({"op": "move_shape_point", "target": shape_name, "which": which, "to": [round(cur[k] + rs.uniform(-0.06, 0.06), 6) for k in range(3)]})
        elif kind == "transient_failure":
            # shorten the edge, try to write (grading cannot realise the chop), put it back, write
            cur = m.pos[transient["block"]][transient["corner"]]
            do({"op": "move_corner", "target": transient["block"], "corner": transient["corner"], "to": list(transient["to"])})
            do({"op": "write_transient"})
            do({"op": "move_corner", "target": transient["block"], "corner": transient["corner"], "to": list(cur)})
            if not m.pending:
                do({"op": "write", "path": DICT})
        elif kind == "backport":
            do({"op": "backport"})
        elif kind == "crash_in_backport":
            n_asm = len(m.assembled_ops)
            at = rs.randint(1, 2 * n_asm + 8)
            do({"op": "crash_in_backport", "at": at})
            if at <= 2 * n_asm:
                do({"op": "backport"})
            else:
                do({"op": "clear"})
        elif kind == "clear":
            do({"op": "clear"})
        elif kind == "side_write":
            do({"op": "side_write"})
        elif kind == "translate_op":
            free = [x for x in m.recipes if not m.recipes[x]["edges"] and x not in m.uncertain]
            if not free:
                continue
            do({"op": "translate_op", "target": rs.pick(free), "d": [round(rs.uniform(-0.3, 0.3), 4) for _ in range(3)]})
        elif kind == "modify_patch":
            st = {"op": "modify_patch", "name": rs.pick(m.used_patch_names()), "kind": rs.pick(KINDS), "settings": None}
            if rs.chance(0.5):
                st["settings"] = rs.pick([["inGroups (a)"], ["neighbourPatch other", "transform none"], []])
            do(st)
        elif kind == "default_patch":
            do({"op": "default_patch", "name": rs.pick(["defaultFaces", "rest"]), "kind": rs.pick(KINDS)})
        elif kind == "merge":
            a, b = (("ifa", "ifb") if rs.chance(0.5) else (rs.pick(NAMES), rs.pick(NAMES)))
            if a == b or [a, b] in m.merges:
                continue
            do({"op": "merge", "master": a, "slave": b})
        elif kind in ("write", "write_fail"):
            st: Dict[str, Any] = {"op": "write", "path": DICT}
            if kind == "write_fail":
                fk = rs.weighted([("open", 2), ("write", 5), ("close", 1)])
                st["fault"] = {"kind": fk, "at": rs.randrange(9), "err": rs.pick([errno.ENOSPC, errno.EIO, errno.EACCES, -1 if fk == "write" else errno.EIO])}
            do(st)
            if not grade_fixed:
                # that write fails with a grading error: the user adds the chop, clears, writes
                ch = by[victim]["chops"][victim_chop]
                do({"op": "chop", "target": victim, "axis": ch["axis"], "args": dict(ch["args"])})
                do({"op": "clear"})
                do({"op": "write", "path": DICT})
                grade_fixed = True
    # every history ends with a checked write (after committing or discarding volatile changes)
    if m.stale or m.pending:
        if m.pending and m.movable and rs.chance(0.7):
            do({"op": "backport"})
        else:
            do({"op": "clear"})
    do({"op": "write", "path": DICT})
    if rs.chance(0.5):
        do({"op": "write", "path": DICT})
    return {"steps": steps, "meta": {"scenario": scenario, "p_fault": p_fault, "blocks": len(names)}}


# ---------------------------------------------------------------------------------------
# execution
# ---------------------------------------------------------------------------------------


def canonical(text: str) -> Dict[str, Any]:
    """numbering-independent content of a written dictionary"""
    d = foam.parse_blockmeshdict(text)

    def vk(i):
        xyz, proj = d.vertices[i]
        return (tuple(round(x, 7) + 0.0 for x in xyz), tuple(proj))

    def r(x):
        return float(f"{x:.9g}")

    blocks = []
    rows = []
    for b in d.blocks:
        blocks.append((tuple(vk(i) for i in b["idx"]), b["zone"], tuple(b["counts"]),
                       tuple(tuple((r(t[0]), r(t[1]), r(t[2])) for t in g) for g in b["gradings"])))
        rows.append(b["idx"])
    edges = []
    for e in d.edges:
        data = tuple(sorted((k, repr(v)) for k, v in e.items() if k not in ("kind", "v")))
        edges.append((e["kind"], frozenset((vk(e["v"][0]), vk(e["v"][1]))), data))
    boundary = {}
    for p in d.boundary:
        if not p["faces"]:
            continue
        boundary[p["name"]] = (p["type"], tuple(p["settings"]), tuple(sorted(tuple(vk(i) for i in q) for q in p["faces"])))
    return {
        "settings": d.settings, "geometry": d.geometry,
        "vertices": sorted(vk(i) for i in range(len(d.vertices))),
        "blocks": sorted(blocks), "partition": VC.partition_signature(rows),
        "edges": sorted(edges, key=repr), "faces": sorted((tuple(vk(i) for i in q), lab) for q, lab in d.faces),
        "boundary": boundary, "default": d.default_patch, "merge": list(d.merge_pairs),
    }


def diff_canonical(a: Dict[str, Any], b: Dict[str, Any]) -> Optional[str]:
    for k in a:
        if a[k] != b[k]:
            if isinstance(a[k], dict):
                for kk in sorted(set(a[k]) | set(b[k])):
                    if a[k].get(kk) != b[k].get(kk):
                        return f"{k}[{kk}]: live {str(a[k].get(kk))[:200]} vs fresh {str(b[k].get(kk))[:200]}"
            if isinstance(a[k], list) and len(a[k]) == len(b[k]):
                for x, y in zip(a[k], b[k]):
                    if x != y:
                        return f"{k}: live {str(x)[:220]} vs fresh {str(y)[:220]}"
            return f"{k}: live {str(a[k])[:200]} vs fresh {str(b[k])[:200]}"
    return None


def run_fresh(program: Dict[str, Any]) -> Tuple[str, Optional[str]]:
    world = seams.World(mode="insertion")
    it = Interp(program)
    with seams.run_world(world):
        try:
            it.run()
            return "ok", world.fs.files.get(DICT)
        except Exception as e:
            return "exc:" + type(e).__name__, None


class StepProbe:
    """counts internal steps of Mesh.assemble and raises SimCrash at the k-th"""

    def __init__(self):
        self.count = 0
        self.crash_at = None
        self.undo = []

    def install(self):
        from classy_blocks.lists.block_list import BlockList
        from classy_blocks.lists.edge_list import EdgeList
        from classy_blocks.lists.face_list import FaceList
        from classy_blocks.lists.patch_list import PatchList
        from classy_blocks.lists.vertex_list import VertexList

        from classy_blocks.construct.flat.face import Face

        for cls, name in ((Face, "update"), (VertexList, "add"), (EdgeList, "add_from_operation"), (BlockList, "add"), (PatchList, "add"), (FaceList, "add")):
            orig = getattr(cls, name, None)
            if orig is None:
                continue

            def wrapped(obj, *a, _orig=orig, **k):
                self.count += 1
                if self.crash_at is not None and self.count == self.crash_at:
                    self.crash_at = None
                    raise seams.SimCrash(f"crash at internal step {self.count} of assemble")
                return _orig(obj, *a, **k)

            self.undo.append(seams.patch_attr(cls, name, wrapped))

    def remove(self):
        for u in self.undo:
            u()
        self.undo = []


def run_history(hist: Dict[str, Any]) -> Dict[str, Any]:
    """Executes the history against the live library under the seams and checks every
    expectation computed by the lifecycle model.  Raises IllFormed for ill-formed histories."""
    steps = hist["steps"]
    anns = annotate(steps)
    seams.install_standard()
    world = seams.World(mode="insertion")
    viols: List[Dict[str, Any]] = []
    stats = {"writes_checked": 0, "writes_failed_by_fault": 0, "crashes_fired": 0, "backports": 0, "moves": 0, "second_writes": 0,
             "grade_errors_as_expected": 0, "clears": 0, "deletes": 0, "writes_after_faulted_write": 0, "assemble_after_crash": 0}
    it = Interp({"ops": []})
    probe = StepProbe()
    probe.install()
    last_write_ok = None
    prev = None
    trace: List[str] = []
    crashed = False

    def hist_str():
        return " ".join(_compact(trace))

    def bad(klass, detail, key=None, i=None):
        viols.append({"property": "C12", "class": klass, "key": key or klass, "detail": f"step {i} ({steps[i]['op']}): {detail} | history: {hist_str()}"})

    try:
        with seams.run_world(world):
            for i, (st, ann) in enumerate(zip(steps, anns)):
                op = st["op"]
                trace.append(op + ("!" + st["fault"]["kind"] if st.get("fault") else ""))
                if op == "crash_in_assemble":
                    probe.count = 0
                    probe.crash_at = st["at"]
                    try:
                        it.mesh.assemble()
                        probe.crash_at = None  # fewer internal steps than 'at': assembled normally
                        world.event("assemble", "no-crash")
                    except seams.SimCrash:
                        stats["crashes_fired"] += 1
                        crashed = True
                        world.count("fault:crash-in-assemble")
                        world.event("crash", st["at"])
                    prev = op
                    continue
                if op == "crash_in_backport":
                    probe.count = 0
                    probe.crash_at = st["at"]
                    try:
                        it.mesh.backport()
                        probe.crash_at = None
                        bad("crash-point-missed", f"backport has fewer than {st['at']} internal steps (harness expectation)", i=i)
                    except seams.SimCrash:
                        stats["crashes_fired"] += 1
                        world.count("fault:crash-in-backport")
                        world.event("crash-backport", st["at"], ann["phase"])
                    prev = op
                    continue
                if op == "write_transient":
                    try:
                        it.step(i, {"op": "write", "path": DICT + ".transient"})
                        world.event("transient-write", "ok")
                    except seams.SimCrash:
                        raise
                    except Exception as e:
                        stats["transient_write_failed"] = stats.get("transient_write_failed", 0) + 1
                        world.event("transient-write", type(e).__name__)
                    prev = "write-failed"
                    last_write_ok = None
                    continue
                if op == "move_corner":
                    bi = ann["block_index"]
                    if bi >= len(it.mesh.blocks):
                        bad("block-missing", f"operation {st['target']} should be block {bi} but only {len(it.mesh.blocks)} blocks exist", i=i)
                        break
                    it.mesh.blocks[bi].vertices[st["corner"]].move_to(st["to"])
                    stats["moves"] += 1
                    prev = op
                    continue
                if op == "move_shape_point":
                    at = ann["at"]
                    vx = min(it.mesh.vertices, key=lambda v_: models.dist([float(x) for x in v_.position], at))
                    if models.dist([float(x) for x in vx.position], at) > 1e-6:
                        bad("vertex-missing", f"no vertex at {st['target']}'s point '{st['which']}' {at} (nearest: {list(vx.position)})", i=i)
                        break
                    vx.move_to(st["to"])
                    stats["moves"] += 1
                    stats["shape_moves"] = stats.get("shape_moves", 0) + 1
                    prev = op
                    continue
                if op == "side_write":
                    exp_outcome, exp_text = run_fresh_cached(ann["expect"])
                    side = it.cb.Mesh()
                    msg = ""
                    try:
                        for g in ann["geometry"]:
                            side.add_geometry({g["name"]: list(g["props"])})
                        for n in ann["added"]:
                            side.add(it.env[n])
                        side.write(DICT + ".side")
                        outcome = "ok"
                    except Exception as e:
                        outcome = "exc:" + type(e).__name__
                        msg = str(e)[:160]
                    stats["side_writes"] = stats.get("side_writes", 0) + 1
                    if outcome != exp_outcome:
                        bad("side-mesh-outcome-differs", f"the same entities in a second Mesh object: write ended {outcome} {msg}; a fresh build ends {exp_outcome}", i=i)
                    elif outcome == "ok":
                        try:
                            d = diff_canonical(canonical(world.fs.files.get(DICT + ".side")), canonical(exp_text))
                        except foam.FoamSyntaxError as e:
                            d = "unparsable: " + repr(e)
                        if d is not None:
                            bad("side-mesh-differs", "the same entities in a second Mesh object (nothing deleted or declared there): " + d,
                                key="side-mesh-differs:" + d.split(":")[0].split("[")[0], i=i)
                    continue
                if op == "write":
                    fault = st.get("fault")
                    planned = None
                    if fault:
                        nth = world.fs.openings.get(DICT, 0)
                        planned = seams.FsFault(fault["kind"], DICT, fault.get("at", 0), fault.get("err", errno.ENOSPC), nth)
                        world.fs.plan.append(planned)
                    exp_outcome, exp_text = run_fresh_cached(ann["expect"])
                    msg = ""
                    try:
                        it.step(i, {"op": "write", "path": DICT})
                        outcome = "ok"
                    except OSError:
                        outcome = "oserror"
                    except seams.SimCrash:
                        outcome = "oserror"  # interrupted inside a write call: same recovery (write again)
                        world.count("fault:crash-in-write")
                    except Exception as e:
                        outcome = "exc:" + type(e).__name__
                        msg = str(e)[:160]
                    after_fail = prev == "write-failed"
                    if outcome == "oserror":
                        if not (planned and planned.fired):
                            bad("unexpected-oserror", "write raised OSError without an injected fault", i=i)
                        stats["writes_failed_by_fault"] += 1
                        last_write_ok = None
                        prev = "write-failed"
                        continue
                    if planned is not None and not planned.fired:
                        world.fs.plan.remove(planned)  # the write failed earlier (grading) or has fewer write calls
                    if outcome != exp_outcome:
                        bad("write-outcome-differs", f"write ended {outcome} {msg}; a fresh build of the same model ends {exp_outcome}",
                            key="write-outcome-differs" + (":after-write" if prev in ("write", "write-failed") else ""), i=i)
                        last_write_ok = None
                        prev = "write-failed"
                        continue
                    if outcome.startswith("exc:"):
                        stats["grade_errors_as_expected"] += 1
                        prev = "write-failed"
                        last_write_ok = None
                        continue
                    text = world.fs.files.get(DICT)
                    stats["writes_checked"] += 1
                    if after_fail:
                        stats["writes_after_faulted_write"] += 1
                    try:
                        d = diff_canonical(canonical(text), canonical(exp_text))
                    except foam.FoamSyntaxError as e:
                        d = "unparsable: " + repr(e)
                    if d is not None:
                        sect = d.split(":")[0].split("[")[0]
                        bad("differs-from-fresh-build", d,
                            key="differs-from-fresh-build:" + sect + (":after-write" if prev in ("write", "write-failed") else ""), i=i)
                    if prev == "write" and last_write_ok is not None:
                        stats["second_writes"] += 1
                        if text != last_write_ok:
                            bad("second-write-differs", "two writes in a row produced different bytes: " + _first_diff(last_write_ok, text), i=i)
                    last_write_ok = text
                    prev = op
                    continue
                # plain operations
                try:
                    it.step(i, st)
                except Exception as e:
                    bad("operation-raised", f"{op} raised {type(e).__name__}: {str(e)[:200]}", key="operation-raised:" + op, i=i)
                    break
                if op == "assemble" and crashed:
                    stats["assemble_after_crash"] += 1
                if op == "backport":
                    stats["backports"] += 1
                    for n, pts in ann["expect_points"].items():
                        if n in ann["deleted"] and n in ann.get("had_block", []):
                            continue  # deleted after assembly: whether its own points follow is not stated
                        got = [list(map(float, p)) for p in it.env[n].point_array]
                        wrong = [c for c in range(8) if max(abs(got[c][k] - pts[c][k]) for k in range(3)) > 1e-9]
                        if wrong:
                            c = wrong[0]
                            bad("backport-wrong-operation-points", f"after backport, {n} corner {c} is at {got[c]}, expected {pts[c]}",
                                key="backport-wrong-operation-points" + (":deleted-op" if n in ann["deleted"] else (":with-deletions" if ann["deleted"] else "")), i=i)
                            break
                if op == "zoo":
                    stats["histories_with_zoo_entity:" + st["kind"]] = 1
                if op == "add_geometry":
                    stats["geometries_declared_mid_history"] = stats.get("geometries_declared_mid_history", 0) + 1
                if op == "clear":
                    stats["clears"] += 1
                if op == "delete":
                    stats["deletes"] += 1
                if op not in SETUP_OPS:
                    prev = op
    finally:
        probe.remove()
    for k, v in world.counters.items():
        stats[k] = stats.get(k, 0) + v
    world.event("end", digest(world.fs.files.get(DICT)))
    return {"violations": viols, "stats": stats, "log": digest(world.log), "trace": trace}


def _first_diff(a: str, b: str) -> str:
    la, lb = a.split("\n"), b.split("\n")
    for i, (x, y) in enumerate(zip(la, lb)):
        if x != y:
            return f"line {i}: {x.strip()[:90]!r} vs {y.strip()[:90]!r}"
    return f"lengths {len(la)} vs {len(lb)}"


def _compact(trace: List[str]) -> List[str]:
    return [t for t in trace if t not in SETUP_OPS]


_FRESH_CACHE: Dict[str, Tuple[str, Optional[str]]] = {}


def run_fresh_cached(program):
    k = digest(program)
    if k not in _FRESH_CACHE:
        if len(_FRESH_CACHE) > 64:
            _FRESH_CACHE.clear()
        _FRESH_CACHE[k] = run_fresh(program)
    return _FRESH_CACHE[k]


def task(seed: int, arg: Dict[str, Any]) -> Dict[str, Any]:
    mode = arg.get("faults", "mixed")
    hist = gen_history(seed, "mixed" if mode == "enumerate" else mode)
    res = run_history(hist)
    out: Dict[str, Any] = {"seed": seed, "violations": [], "runs": 1, "stats": res["stats"], "klass": hist["meta"]["scenario"]}
    nontrivial = res["stats"]["writes_checked"] > 0 and any(t.split("!")[0] in ("clear", "backport", "delete", "crash_in_assemble") or "!" in t for t in res["trace"])
    out["sigs"] = [(digest(_compact(res["trace"])), res["log"], nontrivial)]
    for v in res["violations"]:
        v = dict(v)
        v["replay"] = {"history": hist}
        out["violations"].append(v)
    if mode == "enumerate":
        extra = enumerate_faults(hist)
        out["runs"] += extra["runs"]
        for k, v in extra["stats"].items():
            out["stats"][k] = out["stats"].get(k, 0) + v
        out["violations"] += extra["violations"]
        out["sigs"] += extra["sigs"]
    if arg.get("sample"):
        out["sample"] = {"history": [s for s in hist["steps"] if s["op"] not in SETUP_OPS], "setup_ops": sum(1 for s in hist["steps"] if s["op"] in SETUP_OPS)}
    return out


def enumerate_faults(hist: Dict[str, Any]) -> Dict[str, Any]:
    """For one history: crash at every internal step of its first assembly (then clear and
    assemble again), and fail open / each write call / close of its first plain write (then
    write again).  This is the fault_enumeration part of the thorough tier."""
    out: Dict[str, Any] = {"runs": 0, "stats": {}, "violations": [], "sigs": []}
    steps = hist["steps"]
    variants = []
    for i, st in enumerate(steps):
        if st["op"] == "assemble":
            for at in range(1, 80):
                v = copy.deepcopy(steps)
                v[i: i + 1] = [{"op": "crash_in_assemble", "at": at}, {"op": "clear"}, {"op": "assemble"}]
                variants.append(("crash", at, v))
            break
    for i, st in enumerate(steps):
        if st["op"] == "write" and "fault" not in st:
            for kind, ats, err in (("open", [0], errno.ENOSPC), ("write", list(range(9)), errno.ENOSPC), ("write", list(range(9)), -1), ("close", [0], errno.ENOSPC)):
                for at in ats:
                    v = copy.deepcopy(steps)
                    f = copy.deepcopy(st)
                    f["fault"] = {"kind": kind, "at": at, "err": err}
                    v[i: i + 1] = [f, copy.deepcopy(st)]
                    variants.append(("io-" + kind, at, v))
            break
    # crash points of the first backport: 2 per block while the operations are updated (recovery:
    # backport again), then the first 8 steps of the re-assembly (recovery: clear + assemble)
    m = Model()
    for i, st in enumerate(steps):
        if st["op"] == "backport" and m.movable:
            n = len(m.assembled_ops)
            for at in range(1, 2 * n + 9):
                rec = [{"op": "backport"}] if at <= 2 * n else [{"op": "clear"}, {"op": "assemble"}]
                v = copy.deepcopy(steps)
                v[i: i + 1] = [{"op": "crash_in_backport", "at": at}] + rec
                variants.append(("crash-backport", at, v))
            break
        try:
            m.apply(st)
        except IllFormed:
            break
    crash_exhausted = False
    for kind, at, v in variants:
        if kind == "crash" and crash_exhausted:
            continue
        h = {"steps": v, "meta": hist["meta"]}
        try:
            res = run_history(h)
        except IllFormed:
            continue  # the variant is not a history the model can judge
        out["runs"] += 1
        if kind == "crash" and res["stats"].get("crashes_fired", 0) == 0:
            crash_exhausted = True  # 'at' is beyond the last internal step: enumeration complete
        for k, x in res["stats"].items():
            out["stats"][k] = out["stats"].get(k, 0) + x
        out["sigs"].append((digest(_compact(res["trace"])) + f":{kind}@{at}", res["log"], True))
        for viol in res["violations"]:
            viol = dict(viol)
            viol["replay"] = {"history": h}
            out["violations"].append(viol)
    out["stats"]["fault_points_enumerated"] = out["runs"]
    return out


def replay_check(pid: str, rp: Dict[str, Any]) -> List[Dict[str, Any]]:
    try:
        return run_history(copy.deepcopy(rp["history"]))["violations"]
    except IllFormed:
        return []


def shrink_candidates(rp):
    steps = rp["history"]["steps"]
    # drop a whole operation
    names = [st["name"] for st in steps if st["op"] == "hex"]
    if len(names) > 1:
        for n in names:
            c = copy.deepcopy(rp)
            c["history"]["steps"] = [st for st in steps if st.get("name") != n and st.get("target") != n]
            yield c
    # drop one step (never a hex, never the last write)
    for i in range(len(steps) - 2, -1, -1):
        if steps[i]["op"] == "hex":
            continue
        c = copy.deepcopy(rp)
        del c["history"]["steps"][i]
        yield c
    for i, st in enumerate(steps):
        if st["op"] == "write" and "fault" in st:
            c = copy.deepcopy(rp)
            del c["history"]["steps"][i]["fault"]
            yield c
        if st["op"] == "hex" and st.get("edges"):
            c = copy.deepcopy(rp)
            c["history"]["steps"][i]["edges"] = []
            yield c
