"""C06 engine: the written blockMeshDict (and debug VTK) against an independent reference
renderer.

Simulated dimensions: the bytes captured at the file-system seam, the address-derived
geometry label of spheres (SimId layouts), hash order of patch-name sets.  The oracle is
reference-model conformance: what must appear where, as sets/multisets, derived from the
program (plain operations) or from the operations' public state before assembly
(shape-built operations), with the harness's own hexahedron tables."""

import math
import re
from typing import Any, Dict, List, Optional, Tuple

from .. import foam, hexref, models, seams
from ..program import Interp
from ..streams import Stream, digest, h64
from . import propagation as P

DICT = "case/system/blockMeshDict"
VTK = "case/debug.vtk"
SELFTEST_ARG = {"pid": "C06", "k": 2}
TIERS = {"quick": (1300, 2, 100), "thorough": (20000, 4, 1500)}
PATCHES = ["inlet", "outlet", "walls", "top", "sym", "atmosphere"]
GEOMS = {"terrain": ["type triSurfaceMesh", "name terrain", 'file "terrain.stl"'],
         "ball": ["type sphere", "origin (0 0 0)", "radius 5"],
         "pipe": ["type cylinder", "point1 (0 0 -1)", "point2 (0 0 1)", "radius 3"]}
SIDEMAP_LIVE = ["front", "right", "back", "left"]  # order of Operation.side_projects / side_patches in the public API docs


def r8(p) -> Tuple[float, float, float]:
    return tuple(round(float(x), 8) + 0.0 for x in p)  # type: ignore


# ---------------------------------------------------------------------------------------
# workload
# ---------------------------------------------------------------------------------------


def gen_program(seed: int) -> Dict[str, Any]:
    rs = Stream(seed, "workload", "C06")
    ops: List[Dict[str, Any]] = []
    n = rs.weighted([(1, 2), (2, 4), (3, 3), (4, 2)])
    cells = P.gen_cells(rs.sub("cells"), n, (0.8, 0.15, 0.05))
    spacing = [rs.uniform(0.6, 1.6) for _ in range(3)]
    jit = rs.pick([0.0, 0.06, 0.12])
    points: Dict[str, List[float]] = {}
    entities: List[str] = []
    plain: List[str] = []
    labels_used = set()
    # models are not always built around the origin in metres: large coordinates (mm) with small features
    offset = [0.0, 0.0, 0.0]
    if rs.chance(0.2):
        offset = [round(rs.uniform(200, 3000), 1), round(rs.uniform(-500, 500), 1), 0.0]
    for i, c in enumerate(cells):
        corners = []
        for off in hexref.CORNER_POS:
            node = (c[0] + off[0], c[1] + off[1], c[2] + off[2])
            pid = f"n{node[0]}_{node[1]}_{node[2]}"
            if pid not in points:
                jr = Stream(seed, "jit", pid)
                points[pid] = [round(offset[k] + node[k] * spacing[k] + (jr.uniform(-jit, jit) if jit else 0.0), 6) for k in range(3)]
            corners.append(points[pid])
        rot = hexref.IDENTITY if rs.chance(0.4) else rs.randrange(24)
        name = f"b{i}"
        ops.append({"op": "hex", "name": name, "corners": hexref.renumber(corners, rot)})
        entities.append(name)
        plain.append(name)
        if i == 0 and rs.chance(0.2):
            # a second block right behind a thin slit: a copy of this one, shifted by its own extent
            # plus a gap of 1e-4 .. 1e-2 in x (distinct points, however large the coordinates)
            xs = [p[0] for p in corners]
            gap = round(10 ** rs.uniform(-4, -2), 6)
            shift = max(xs) - min(xs) + gap
            # the copy must not run into lattice cells on that side: only when this cell has no +x neighbour
            if not any(cc[0] > c[0] for cc in cells):
                twin = [[p[0] + shift, p[1], p[2]] for p in corners]
                ops.append({"op": "hex", "name": "slit", "corners": hexref.renumber(twin, rot)})
                entities.append("slit")
                plain.append("slit")
    # other plain operations, far away from the lattice
    if rs.chance(0.35):
        k = rs.pick(["box", "extrude", "revolve"])
        name = "x0"
        if k == "box":
            ops.append({"op": "box", "name": name, "p1": [20.0, 0.0, 0.0], "p2": [20.0 + rs.uniform(0.5, 2), rs.uniform(0.5, 2), rs.uniform(0.5, 2)]})
        elif k == "extrude":
            ops.append({"op": "extrude", "name": name, "face": [[20, 0, 0], [21, 0.1, 0], [21.1, 1, 0.05], [20, 0.9, 0]], "amount": [0.1, 0.2, rs.uniform(0.5, 1.5)]})
        else:
            ops.append({"op": "revolve", "name": name, "face": [[20, 1, 0], [21, 1, 0], [21, 2, 0], [20, 2, 0]], "angle": round(rs.uniform(0.3, 1.2), 4), "axis": [1, 0, 0], "origin": [0, 0, 0]})
        entities.append(name)
        plain.append(name)
    # chops: the hexahedra form edge families (union-find over their shared corner pairs); each family
    # is chopped on exactly one member (never on the operation that is deleted later, if another member
    # exists) - the others get counts and gradings by propagation, so every shared edge has one source
    victim = rs.pick(plain) if (len(plain) > 1 and rs.chance(0.3)) else None
    nm = rs.weighted([(0, 5), (1, 3), (2, 1)])  # merged pairs (declared further down)
    hexops = [op for op in ops if op["op"] == "hex"]
    dense = nm > 0 or victim is not None
    if dense:
        # merged pairs duplicate vertices, and a deleted block may have been the only link between two
        # parts of an edge family: then every block is chopped itself
        for nme in plain:
            for a in range(3):
                ops.append({"op": "chop", "target": nme, "axis": a, "args": {"count": 2}})
        hexops = []
    asm = models.Assembly([models.RefBlock(op["name"], [tuple(round(x, 6) for x in p) for p in op["corners"]]) for op in hexops])
    for root, members in sorted(asm.families().items()):
        cand = [m for m in sorted(members) if hexops[m[0]]["name"] != victim] or sorted(members)
        bi, a, par = rs.pick(cand)
        args: Dict[str, Any] = {"count": rs.randint(2, 4)}
        kind = rs.weighted([("plain", 3), ("c2c", 2), ("total", 2)])
        if kind == "c2c":
            args["c2c_expansion"] = round(rs.uniform(0.8, 1.25), 3)
        elif kind == "total":
            args["total_expansion"] = round(rs.uniform(0.4, 2.5), 3)
        if rs.chance(0.1):
            # a saw-tooth: the same graded division twice
            saw = {"count": rs.randint(2, 4), "total_expansion": rs.pick([4, 0.25, 2.0]), "length_ratio": 0.5}
            ops.append({"op": "chop", "target": hexops[bi]["name"], "axis": a, "args": dict(saw)})
            ops.append({"op": "chop", "target": hexops[bi]["name"], "axis": a, "args": dict(saw)})
            continue
        ops.append({"op": "chop", "target": hexops[bi]["name"], "axis": a, "args": args})
        # sometimes a second member asks for the same count with another expansion: blocks that lie
        # between the two take each edge from whichever neighbour owns it (edgeGrading)
        others = [m for m in cand if m != (bi, a, par)]
        if len(members) >= 3 and others and rs.chance(0.4):
            bj, a2, _ = rs.pick(others)
            ops.append({"op": "chop", "target": hexops[bj]["name"], "axis": a2, "args": {"count": args["count"], "total_expansion": round(rs.uniform(0.4, 2.5), 3)}})
    for nme in plain:
        if dense or any(op["name"] == nme for op in hexops):
            continue
        for a in range(3):
            ops.append({"op": "chop", "target": nme, "axis": a, "args": {"count": 2, "c2c_expansion": rs.pick([1, 1.1, 0.9])}})
    # decorations of plain operations
    p_patch = rs.pick([0.2, 0.5, 0.8])
    for nme in plain:
        for side in hexref.SIDES:
            if rs.chance(p_patch):
                if rs.chance(0.15):
                    other = [s for s in hexref.SIDES if s != side]
                    ops.append({"op": "patch", "target": nme, "side": [side, rs.pick(other)], "name": rs.pick(PATCHES)})
                else:
                    ops.append({"op": "patch", "target": nme, "side": side, "name": rs.pick(PATCHES)})
        if rs.chance(0.3):
            ops.append({"op": "zone", "target": nme, "name": rs.pick(["fluid", "solid", "porous"])})
        if rs.chance(0.3):
            lab = rs.pick(list(GEOMS))
            labels_used.add(lab)
            ops.append({"op": "project_side", "target": nme, "side": rs.pick(list(hexref.SIDES)), "label": lab, "edges": rs.chance(0.4), "points": rs.chance(0.4)})
        if rs.chance(0.2):
            lab = rs.pick(list(GEOMS))
            labels_used.add(lab)
            ops.append({"op": "project_corner", "target": nme, "corner": rs.randrange(8), "label": lab if rs.chance(0.7) else [lab, "terrain"]})
            labels_used.add("terrain")
        if rs.chance(0.15):
            lab = rs.pick(list(GEOMS))
            labels_used.add(lab)
            c1, c2 = rs.pick(list(hexref.EDGES12))
            ops.append({"op": "project_edge", "target": nme, "c1": c1, "c2": c2, "label": lab})
    # a shape
    shape_names: List[str] = []
    if rs.chance(0.4):
        k = rs.pick(["cylinder", "ring", "hemisphere", "hemisphere_copy", "cylinder_hemisphere", "frustum", "elbow", "semicylinder", "stack", "tjoint", "ljoint"])
        o = [0.0, 30.0, 0.0]
        if k == "cylinder":
            ops.append({"op": "shape", "name": "s0", "kind": "cylinder", "args": {"p1": o, "p2": [0, 30, rs.uniform(1, 2)], "r": [rs.uniform(0.5, 1), 30, 0]}})
            shape_names = ["s0"]
        elif k == "frustum":
            ops.append({"op": "shape", "name": "s0", "kind": "frustum", "args": {"p1": o, "p2": [0, 30, 1.5], "r1": [1, 30, 0], "r2": rs.uniform(0.3, 0.8)}})
            shape_names = ["s0"]
        elif k == "stack":
            n1, n2, rep = rs.randint(1, 2), rs.randint(1, 2), rs.randint(1, 3)
            ops.append({"op": "shape", "name": "s0", "kind": "stack", "args": {"p1": [0, 30, 0], "p2": [rs.uniform(1, 2), 30 + rs.uniform(1, 2), 0], "n1": n1, "n2": n2,
                                                                                 "amount": round(rs.uniform(0.5, 1.5), 3), "repeats": rep}})
            nops = n1 * n2 * rep
            for j in range(nops):
                for a in range(3):
                    ops.append({"op": "sub_chop", "target": "s0", "index": j, "axis": a, "args": {"count": 2}})
                if rs.chance(0.3):
                    ops.append({"op": "sub_patch", "target": "s0", "index": j, "side": rs.pick(list(hexref.SIDES)), "name": rs.pick(PATCHES)})
            entities.append("s0")
            shape_names = []
        elif k in ("tjoint", "ljoint"):
            ops.append({"op": "shape", "name": "s0", "kind": k, "args": {"start": [0, 30, 0], "center": [2.0, 30, 0], "r": [0, 30, rs.uniform(0.3, 0.6)]}})
            shape_names = ["s0"]
        elif k == "elbow":
            ops.append({"op": "shape", "name": "s0", "kind": "elbow", "args": {"c": o, "r1": [0.5, 30, 0], "n1": [0, 0, 1], "angle": round(rs.uniform(0.5, 1.5), 3),
                                                                                 "arc_c": [2.0, 30, 0], "axis": [0, 1, 0], "r2": rs.uniform(0.3, 0.7)}})
            shape_names = ["s0"]
        elif k == "semicylinder":
            ops.append({"op": "shape", "name": "s0", "kind": "semicylinder", "args": {"p1": o, "p2": [0, 30, 1.2], "r": [0.9, 30, 0]}})
            shape_names = ["s0"]
        elif k == "ring":
            ops.append({"op": "shape", "name": "s0", "kind": "ring", "args": {"p1": o, "p2": [0, 30, 1], "r_out": [1.0, 30, 0], "r_in": 0.5, "n": rs.pick([4, 5, 8])}})
            shape_names = ["s0"]
        elif k == "hemisphere":
            ops.append({"op": "shape", "name": "s0", "kind": "hemisphere", "args": {"c": o, "r": [rs.uniform(0.5, 1.5), 30, 0], "n": [0, 0, 1]}})
            shape_names = ["s0"]
        elif k == "hemisphere_copy":
            ops.append({"op": "shape", "name": "s0", "kind": "hemisphere", "args": {"c": o, "r": [1.0, 30, 0], "n": [0, 0, 1]}})
            # (the copy is not moved: transforming a hemisphere moves the faces its lofts share
            # twice - a defect of the transform, which is C09's subject, not this check's)
            ops.append({"op": "copy", "name": "s1", "source": "s0"})
            shape_names = rs.pick([["s1"], ["s1"], ["s0", "s1"]])
        else:
            ops.append({"op": "shape", "name": "s0", "kind": "cylinder", "args": {"p1": o, "p2": [0, 30, 1.0], "r": [0.8, 30, 0]}})
            ops.append({"op": "chain", "name": "s1", "source": "s0", "kind": "hemisphere", "args": {}})
            shape_names = ["s0", "s1"]
        for sn in shape_names:
            kind = "hemisphere" if (sn == "s1" or k == "hemisphere") and k != "cylinder" else k
            for which in ("axial", "radial", "tangential"):
                ops.append({"op": "shape_chop", "target": sn, "which": which, "args": {"count": 3}})
            if rs.chance(0.6):
                ops.append({"op": "shape_patch", "target": sn, "which": "outer", "name": rs.pick(PATCHES)})
            if rs.chance(0.5) and k not in ("tjoint", "ljoint"):
                ops.append({"op": "shape_patch", "target": sn, "which": "start", "name": rs.pick(PATCHES)})
            if rs.chance(0.3) and k not in ("tjoint", "ljoint"):
                ops.append({"op": "zone", "target": sn, "name": "shapezone"})
        entities += shape_names
    # one of the less common entities (elbow, sketch-based shape or stack, shell, connector, wedge, ...), far away from
    # everything else; every edge family chopped, patches on some sides of some of its operations
    zr = rs.sub("zoo")
    if zr.chance(0.12):
        from . import zoo

        zops, zchops, znames, zsnap, zmeta = zoo.entity_with_chops(zr, 0, mode="complete", offset=[0.0, -60.0, 0.0], sources="all" if dense else "single")
        # (this check identifies points by their printed 8 decimals: an entity whose own construction leaves coinciding
        # corners 1e-9 apart - the joints - cannot be judged that way and is left to the propagation checks)
        if zsnap is not None and zmeta["coincident_spread"] < 1e-11:
            # (the name s0 is taken by the shapes above; the interpreter binds helper entities as <name>_a / _b / _base)
            zop = dict(zops[0], name="z0")
            ops.append(zop)
            for ch in zchops:
                ch = dict(ch)
                ch["target"] = "z0" + ch["target"][2:]
                ops.append(ch)
            for (nme_, j_, _, _) in zsnap:
                tgt = "z0" + nme_[2:]
                for side in hexref.SIDES:
                    if zr.chance(0.12):
                        if j_ is None:
                            ops.append({"op": "patch", "target": tgt, "side": side, "name": zr.pick(PATCHES)})
                        else:
                            ops.append({"op": "sub_patch", "target": tgt, "index": j_, "side": side, "name": zr.pick(PATCHES)})
            entities += ["z0" + n_[2:] for n_ in znames]
    for lab in sorted(labels_used):
        if rs.chance(0.15):
            # a geometry declared twice: the later declaration is the one that counts
            ops.append({"op": "geometry", "name": lab, "props": [GEOMS[lab][0], "note superseded"]})
        ops.append({"op": "geometry", "name": lab, "props": GEOMS[lab]})
    order = rs.shuffled(entities)
    for e in order:
        ops.append({"op": "add", "target": e})
    # the script may have assembled (or even written) the mesh before its final edits:
    # whatever it did before, the file must render the model as it stands at the last write
    early = rs.weighted([("none", 6), ("assemble", 2), ("write", 1)])
    late_ops: List[Dict[str, Any]] = []
    if early != "none":
        ops.append({"op": "assemble"} if early == "assemble" else {"op": "write", "path": DICT + ".early"})
    if victim is not None and (early != "none" or rs.chance(0.8)):
        ops.append({"op": "delete", "target": victim})
    used = sorted({(op["name"]) for op in ops if op["op"] in ("patch", "shape_patch")})
    for _ in range(nm):
        a, b = rs.pick(PATCHES), rs.pick(PATCHES)
        if a != b:
            ops.append({"op": "merge", "master": a, "slave": b})
    if rs.chance(0.4):
        ops.append({"op": "default_patch", "name": rs.pick(["defaultFaces", "remaining"]), "kind": rs.pick(["wall", "patch", "empty"])})
    if used:
        # a patch may be modified several times; the last type wins, settings are replaced
        # only when given (an empty list is given: it clears them)
        nmod = rs.weighted([(0, 4), (1, 3), (2, 2), (3, 1)])
        focus = rs.pick(used)
        for _ in range(nmod):
            ops.append({"op": "modify_patch", "name": focus if rs.chance(0.6) else rs.pick(used), "kind": rs.pick(["wall", "symmetry", "cyclic", "patch"]),
                        "settings": rs.pick([None, [], ["inGroups (g1)"], ["neighbourPatch other", "transform none"]])})
    if rs.chance(0.3):
        ops.append({"op": "setting", "key": "scale", "value": rs.pick([0.001, 1, 0.5])})
    if rs.chance(0.15):
        ops.append({"op": "setting", "key": "mergeType", "value": "points"})
    if rs.chance(0.15):
        k_, v_ = rs.pick([("prescale", "(1 1 2)"), ("verbose", "true"), ("checkFaceCorrespondence", "false"), ("transform", "none")])
        ops.append({"op": "setting", "key": k_, "value": v_})
    if early != "none":
        # edits made on an assembled mesh take effect at the next assembly
        tail = rs.pick([{"op": "clear"}, {"op": "backport"}])
        fr = rs.sub("flip")
        flippable = [op["name"] for op in ops if op["op"] == "hex" and op["name"] != victim and not op.get("edges")]
        if tail["op"] == "clear" and flippable and fr.chance(0.35):
            # an operation that has been assembled once is turned over (top and bottom face swapped)
            ops.append({"op": "invert", "target": fr.pick(flippable)})
        ops.append(tail)
    ops.append({"op": "write", "path": DICT, "debug": VTK if rs.chance(0.7) else None})
    if rs.sub("remesh").chance(0.2):
        # the same entities in a second Mesh object: must render to the same file
        ops.append({"op": "remesh"})
        ops.append({"op": "write", "path": DICT + ".second"})
    return {"ops": ops, "point_type": rs.sub("ptype").pick(["list", "list", "tuple", "array", "int_where_whole"])}


# ---------------------------------------------------------------------------------------
# the reference model
# ---------------------------------------------------------------------------------------


class RefOp:
    def __init__(self, name: str):
        self.name = name
        self.points: List[Tuple[float, float, float]] = []
        self.patches: Dict[str, str] = {}
        self.zone = ""
        self.face_labels: Dict[str, str] = {}
        self.corner_labels: List[List[str]] = [[] for _ in range(8)]
        self.source = "program"


def side_corners_in_order(side: str) -> List[int]:
    return sorted(hexref.SIDE_CORNERS[side])


def ref_from_program(program: Dict[str, Any]) -> Dict[str, RefOp]:
    """plain `hex` operations: everything from the program text"""
    out: Dict[str, RefOp] = {}
    for op in program["ops"]:
        k = op["op"]
        if k == "hex":
            r = RefOp(op["name"])
            r.points = [r8(p) for p in op["corners"]]
            out[op["name"]] = r
        elif k == "invert" and op["target"] in out:
            # turned over: old top face = new bottom face; patches, projections and labels travel with the faces
            r = out[op["target"]]
            r.points = r.points[4:] + r.points[:4]
            r.corner_labels = r.corner_labels[4:] + r.corner_labels[:4]
            for dct in (r.patches, r.face_labels):
                t, b = dct.pop("top", None), dct.pop("bottom", None)
                if t is not None:
                    dct["bottom"] = t
                if b is not None:
                    dct["top"] = b
        elif k in ("patch", "zone", "project_side", "project_corner") and op["target"] in out:
            r = out[op["target"]]
            if k == "patch":
                sides = op["side"] if isinstance(op["side"], list) else [op["side"]]
                for s in sides:
                    r.patches[s] = op["name"]
            elif k == "zone":
                r.zone = op["name"]
            elif k == "project_side":
                r.face_labels[op["side"]] = op["label"]
                if op.get("points"):
                    for c in hexref.SIDE_CORNERS[op["side"]]:
                        r.corner_labels[c] = r.corner_labels[c] + [op["label"]]
            elif k == "project_corner":
                lab = op["label"] if isinstance(op["label"], list) else [op["label"]]
                r.corner_labels[op["corner"]] = r.corner_labels[op["corner"]] + lab
    return out


def ref_from_live(name: str, operation) -> RefOp:
    """shape-built and derived operations: the operation's public state before assembly"""
    r = RefOp(name)
    r.source = "live"
    r.points = [r8(p) for p in operation.point_array]
    r.patches = dict(operation.patch_names)
    r.zone = operation.cell_zone
    if operation.bottom_face.projected_to is not None:
        r.face_labels["bottom"] = operation.bottom_face.projected_to
    if operation.top_face.projected_to is not None:
        r.face_labels["top"] = operation.top_face.projected_to
    for i, lab in enumerate(operation.side_projects):
        if lab is not None:
            r.face_labels[SIDEMAP_LIVE[i]] = lab
    r.corner_labels = [list(p.projected_to) for p in operation.points]
    return r


class RefMesh:
    def __init__(self) -> None:
        self.ops: List[RefOp] = []  # non-deleted, flattened, in add order
        self.merges: List[Tuple[str, str]] = []
        self.default: Optional[Dict[str, str]] = None
        self.mods: Dict[str, Dict[str, Any]] = {}
        self.settings: Dict[str, str] = {}
        self.geometry: Dict[str, List[str]] = {}
        self.spheres: List[Dict[str, Any]] = []  # auto geometries expected: centre, radius, labels used


def build_reference(program: Dict[str, Any], it: Interp) -> RefMesh:
    ref = RefMesh()
    prog_ops = ref_from_program(program)
    deleted = {op["target"] for op in program["ops"] if op["op"] == "delete"}
    for op in program["ops"]:
        k = op["op"]
        if k == "add":
            nme = op["target"]
            if nme in deleted:
                continue
            if nme in prog_ops:
                ref.ops.append(prog_ops[nme])
            else:
                ent = it.env[nme]
                opers = [ent] if not hasattr(ent, "operations") else list(ent.operations)
                for j, o in enumerate(opers):
                    ref.ops.append(ref_from_live(f"{nme}[{j}]", o))
        elif k == "merge":
            ref.merges.append((op["master"], op["slave"]))
        elif k == "default_patch":
            ref.default = {"name": op["name"], "type": op["kind"]}
        elif k == "modify_patch":
            prev = ref.mods.get(op["name"], {})
            ref.mods[op["name"]] = {"kind": op["kind"], "settings": op["settings"] if op.get("settings") is not None else prev.get("settings")}
        elif k == "setting":
            ref.settings[op["key"]] = str(op["value"])
        elif k == "geometry":
            ref.geometry[op["name"]] = list(op["props"])
    # spheres: centre and radius from the program
    shapes = {}
    for op in program["ops"]:
        if op["op"] == "shape" and op["kind"] == "hemisphere":
            c, rp = op["args"]["c"], op["args"]["r"]
            shapes[op["name"]] = {"centre": [float(x) for x in c], "radius": models.dist(c, rp)}
        elif op["op"] == "chain" and op["kind"] == "hemisphere":
            src = next(o for o in program["ops"] if o.get("name") == op["source"] and o["op"] == "shape")
            a = src["args"]
            shapes[op["name"]] = {"centre": [float(x) for x in a["p2"]], "radius": models.dist(a["p1"], a["r"])}
        elif op["op"] == "copy" and op["source"] in shapes:
            shapes[op["name"]] = dict(shapes[op["source"]])
        elif op["op"] == "translate" and op["target"] in shapes:
            s = shapes[op["target"]]
            s["centre"] = [s["centre"][i] + op["d"][i] for i in range(3)]
    added = [op["target"] for op in program["ops"] if op["op"] == "add"]
    for nme, s in shapes.items():
        if nme in added:
            s = dict(s, name=nme, noperations=len(it.env[nme].operations))
            ref.spheres.append(s)
    return ref


# ---------------------------------------------------------------------------------------
# one simulated execution
# ---------------------------------------------------------------------------------------


def run_once(program: Dict[str, Any], sched: Dict[str, Any]) -> Dict[str, Any]:
    seams.install_standard()
    world = seams.World(sched_seed=sched.get("seed", 0), mode=sched.get("mode", "uniform"))
    world.ids.layout = sched.get("ids", "seq")
    it = Interp(program)
    out: Dict[str, Any] = {"outcome": "?", "msg": "", "ref": None}

    def before(i, op):
        if op["op"] == "write" and op["path"] != DICT + ".second":
            out["ref"] = build_reference(program, it)

    it.hooks["before"] = before
    with seams.run_world(world):
        try:
            it.run()
            out["outcome"] = "ok"
        except Exception as e:
            out["outcome"] = "exc:" + type(e).__name__
            out["msg"] = str(e)[:300]
    out["dict"] = world.fs.files.get(DICT)
    out["vtk"] = world.fs.files.get(VTK)
    out["dict2"] = world.fs.files.get(DICT + ".second")
    world.event("outcome", out["outcome"], digest(out["dict"]), digest(out["vtk"]), digest(out["dict2"]))
    out["log"] = digest(world.log)
    out["decisions"] = world.decisions
    return out


# ---------------------------------------------------------------------------------------
# oracle
# ---------------------------------------------------------------------------------------


def oracle(program: Dict[str, Any], run: Dict[str, Any]) -> Tuple[List[Dict[str, Any]], Dict[str, int]]:
    V: List[Dict[str, Any]] = []
    stats = {"patch_quads_checked": 0, "projected_faces_checked": 0, "vertex_labels_checked": 0, "vtk_checked": 0, "sphere_geometries_checked": 0,
             "merged_pairs": 0, "blocks_matched": 0}

    def bad(klass, detail, key=None):
        V.append({"property": "C06", "class": klass, "key": key or klass, "detail": detail})

    if run["outcome"] != "ok":
        bad("write-failed", f"a well-formed program ended {run['outcome']}: {run['msg']}")
        return V, stats
    ref: RefMesh = run["ref"]
    if any(op["op"] == "remesh" for op in program["ops"]):
        # the same entities in a second Mesh object: that file is judged against the same reference
        # (not byte-compared with the first: the order of the boundary entries may legitimately differ)
        stats["second_mesh"] = 1
        p2 = {"ops": [dict(op, debug=None) if op["op"] == "write" else op for op in program["ops"] if op["op"] != "remesh"]}
        V2, _ = oracle(p2, dict(run, dict=run["dict2"], vtk=None, dict2=None))
        for v in V2:
            v["class"] = "second-mesh:" + v["class"]
            if not v["key"].startswith("geometry-undefined:copied-sphere"):  # the listed finding is the same finding in any mesh
                v["key"] = "second-mesh:" + v["key"]
            v["detail"] = "the same entities in a second Mesh object: " + v["detail"]
        V += V2
    try:
        d = foam.parse_blockmeshdict(run["dict"])
    except Exception as e:
        bad("unparsable", f"the written file does not parse as a blockMeshDict: {e!r}")
        return V, stats
    if d.header.get("object") != "blockMeshDict" or d.header.get("class") != "dictionary":
        bad("header", f"FoamFile header {d.header}")
    nv = len(d.vertices)
    # settings
    for k, v in ref.settings.items():
        if d.settings.get(k) != v:
            bad("setting", f"setting {k}: written {d.settings.get(k)!r}, declared {v!r}")
    extra = set(d.settings) - set(ref.settings) - {"scale"}
    if extra:
        bad("setting", f"undeclared settings written: {sorted(extra)}")
    # every index refers to an existing vertex
    def chk(i, where):
        if not (0 <= i < nv):
            bad("index-out-of-range", f"{where}: vertex label {i} but only {nv} vertices")
            return False
        return True

    ok = True
    for b in d.blocks:
        ok &= all(chk(i, "hex") for i in b["idx"])
    for e in d.edges:
        ok &= all(chk(i, "edge") for i in e["v"])
    for q, _ in d.faces:
        ok &= all(chk(i, "faces") for i in q)
    for p in d.boundary:
        for q in p["faces"]:
            ok &= all(chk(i, "boundary " + p["name"]) for i in q)
    if not ok:
        return V, stats
    vpos = [r8(v[0]) for v in d.vertices]
    # vertices are the model's points
    model_pts = {p for o in ref.ops for p in o.points}
    if set(vpos) != model_pts:
        missing = sorted(model_pts - set(vpos))[:3]
        extra_p = sorted(set(vpos) - model_pts)[:3]
        bad("vertices-not-model-points", f"model points missing from the file: {missing}; written points that are no corner of any operation: {extra_p}")
    # hex entries = non-deleted operations: match each reference op to an unused hex entry
    if len(d.blocks) != len(ref.ops):
        bad("hex-count", f"{len(d.blocks)} hex entries for {len(ref.ops)} non-deleted operations")
        return V, stats
    unused = list(range(len(d.blocks)))
    match: Dict[int, int] = {}
    for oi, o in enumerate(ref.ops):
        hit = None
        # prefer the entry at the same position (blocks are normally written in add order)
        cand = ([oi] if oi in unused else []) + [b for b in unused if b != oi]
        for bi in cand:
            if [vpos[i] for i in d.blocks[bi]["idx"]] == o.points:
                hit = bi
                break
        if hit is None:
            near = [vpos[i] for i in d.blocks[oi]["idx"]] if oi < len(d.blocks) else None
            bad("hex-corners", f"operation {o.name}: no hex entry lists its eight corners in its own order; entry {oi} lists {near}, operation has {o.points}")
            return V, stats
        unused.remove(hit)
        match[oi] = hit
        stats["blocks_matched"] += 1
        if d.blocks[hit]["zone"] != o.zone:
            bad("cell-zone", f"operation {o.name}: zone written {d.blocks[hit]['zone']!r}, declared {o.zone!r}")
    # counts on shared edges agree (C01's oracle, on this file)
    edge_counts: Dict[frozenset, set] = {}
    for b in d.blocks:
        for a in range(3):
            for (u, v) in hexref.AXIS_EDGES[a]:
                key = frozenset((b["idx"][u], b["idx"][v]))
                if len(key) == 2:
                    edge_counts.setdefault(key, set()).add(b["counts"][a])
            for k in range(4):
                spec = b["gradings"][4 * a + k]
                if len(spec) > 1 and models.section_cells(spec, b["counts"][a]) is None:
                    bad("grading-sections", f"sections {spec} do not sum to {b['counts'][a]}")
    if any(len(s) > 1 for s in edge_counts.values()):
        bad("shared-edge-counts", "two hex entries disagree on the cell count of a shared edge")
    # ... and on its grading: the same sequence of relative cell sizes from either block
    # (aligned or reversed); every shared edge of the generated scripts has exactly one chopped source
    edge_seqs: Dict[frozenset, List[Tuple[int, List[float]]]] = {}
    for bi_, b in enumerate(d.blocks):
        for a in range(3):
            for k, (u, v) in enumerate(hexref.AXIS_EDGES[a]):
                i0, i1 = b["idx"][u], b["idx"][v]
                if i0 == i1:
                    continue
                seq = models.cell_sizes(1.0, b["gradings"][4 * a + k], b["counts"][a])
                if seq is None:
                    continue
                if i0 > i1:
                    seq = list(reversed(seq))
                edge_seqs.setdefault(frozenset((i0, i1)), []).append((bi_, seq))
    # a chopped direction of a hex operation is written with its own chops (count alone, count + c2c,
    # count + total expansion: the relative cell sizes follow from the declaration without solving)
    declared: Dict[Tuple[str, int], List[Dict[str, Any]]] = {}
    hexnames = {op["name"] for op in program["ops"] if op["op"] == "hex"}
    for op in program["ops"]:
        if op["op"] == "chop" and op["target"] in hexnames:
            declared.setdefault((op["target"], op["axis"]), []).append(op["args"])
    for oi, o in enumerate(ref.ops):
        for a in range(3):
            secs = declared.get((o.name, a))
            if not secs or any(sc.get("count") is None or sc.get("start_size") is not None or sc.get("end_size") is not None
                               or sc.get("preserve") in ("start_size", "end_size") for sc in secs):
                continue
            spec = []
            for sc in secs:
                n = max(int(sc["count"]), 1)
                e = float(sc["total_expansion"]) if sc.get("total_expansion") is not None else (float(sc["c2c_expansion"]) ** (n - 1) if sc.get("c2c_expansion") is not None else 1.0)
                spec.append((float(sc.get("length_ratio", 1.0)), float(n), e))
            want = models.cell_sizes(1.0, spec, sum(int(x[1]) for x in spec))
            b = d.blocks[match[oi]]
            for k in range(4):
                got = models.cell_sizes(1.0, b["gradings"][4 * a + k], b["counts"][a])
                stats["declared_gradings_checked"] = stats.get("declared_gradings_checked", 0) + 1
                if want is None or got is None or not models.seq_close(want, got, 1e-6, 1.0):
                    bad("hex-grading-not-as-declared", f"operation {o.name} direction {a}: chops {secs} give relative cell sizes {want}, the hex entry describes {got}")
                    break
            else:
                continue
            break
    chopped_dirs = {(op["target"], op["axis"]) for op in program["ops"] if op["op"] == "chop"}
    entry_name = {match[oi]: o.name for oi, o in enumerate(ref.ops)}
    entry_axis_of_edge: Dict[Tuple[int, frozenset], int] = {}
    for bi_, b in enumerate(d.blocks):
        for a in range(3):
            for (u, v) in hexref.AXIS_EDGES[a]:
                entry_axis_of_edge[(bi_, frozenset((b["idx"][u], b["idx"][v])))] = a
    for key, lst in edge_seqs.items():
        # an edge that two chopped directions own themselves may carry two different demands: not judged
        owners = sum(1 for (bj, _) in lst if (entry_name.get(bj), entry_axis_of_edge.get((bj, key))) in chopped_dirs)
        if owners >= 2:
            continue
        stats["graded_shared_edges"] = stats.get("graded_shared_edges", 0) + (1 if len(lst) > 1 else 0)
        for (bj, seq) in lst[1:]:
            if not models.seq_close(lst[0][1], seq, 1e-6, 1.0):
                bad("shared-edge-gradings", f"edge {sorted(key)}: hex entry {lst[0][0]} describes relative cell sizes {[round(x, 5) for x in lst[0][1]]}, entry {bj} {[round(x, 5) for x in seq]}")
                break
        else:
            continue
        break
    # vertex projection labels
    for oi, o in enumerate(ref.ops):
        idx = d.blocks[match[oi]]["idx"]
        for c in range(8):
            written = d.vertices[idx[c]][1]
            declared = [oo.corner_labels[cc] for oj, oo in enumerate(ref.ops) for cc in range(8) if d.blocks[match[oj]]["idx"][cc] == idx[c]]
            stats["vertex_labels_checked"] += 1
            if written not in declared:
                bad("vertex-projection", f"operation {o.name} corner {c}: vertex written with projection {written}, operations at that vertex declare {declared}")
                break
    # boundary
    exp_patches: Dict[str, List[Tuple[str, str, frozenset]]] = {}
    for oi, o in enumerate(ref.ops):
        idx = d.blocks[match[oi]]["idx"]
        for side, pname in o.patches.items():
            quad = frozenset(idx[c] for c in hexref.SIDE_CORNERS[side])
            exp_patches.setdefault(pname, []).append((o.name, side, quad))
    for name in ref.mods:
        exp_patches.setdefault(name, [])
    written = {p["name"]: p for p in d.boundary}
    if len(written) != len(d.boundary):
        bad("patch-listed-twice", f"patch names {[p['name'] for p in d.boundary]}")
    for name, items in exp_patches.items():
        if name not in written:
            if items:
                bad("patch-missing", f"patch {name} declared on {[(a, s) for a, s, _ in items]} is not in the file")
            continue
        p = written[name]
        mod = ref.mods.get(name)
        exp_type = mod["kind"] if mod else "patch"
        exp_settings = list(mod["settings"]) if mod and mod.get("settings") else []
        if p["type"] != exp_type:
            bad("patch-type", f"patch {name}: type {p['type']}, declared {exp_type}")
        if p["settings"] != exp_settings:
            bad("patch-settings", f"patch {name}: settings {p['settings']}, declared {exp_settings}")
        got = [frozenset(q) for q in p["faces"]]
        exp = []
        for (_, _, quad) in items:
            if quad not in exp:
                exp.append(quad)
        stats["patch_quads_checked"] += len(exp)
        if sorted(map(sorted, got)) != sorted(map(sorted, exp)):
            bad("patch-faces", f"patch {name}: written quads {sorted(map(sorted, got))}, declared sides give {sorted(map(sorted, exp))} ({[(a, s) for a, s, _ in items]})")
        for q in p["faces"]:
            if len(set(q)) != 4:
                bad("degenerate-quad", f"patch {name}: quad {q}")
    for name in written:
        if name not in exp_patches:
            bad("patch-undeclared", f"patch {name} is in the file but was never declared")
    # every quad is a side of some block
    block_sides = set()
    for b in d.blocks:
        for s in hexref.SIDES:
            block_sides.add(frozenset(b["idx"][c] for c in hexref.SIDE_CORNERS[s]))
    for p in d.boundary:
        for q in p["faces"]:
            if frozenset(q) not in block_sides:
                bad("quad-not-a-block-side", f"patch {p['name']}: {q}")
    for q, lab in d.faces:
        if frozenset(q) not in block_sides:
            bad("quad-not-a-block-side", f"projected face {q}")
    # default patch, merges
    if (d.default_patch or None) != (ref.default or None):
        bad("default-patch", f"written {d.default_patch}, declared {ref.default}")
    if sorted(d.merge_pairs) != sorted(ref.merges):
        bad("merge-pairs", f"written {d.merge_pairs}, declared {ref.merges}")
    stats["merged_pairs"] += len(ref.merges)
    # faces (projected sides)
    exp_faces: Dict[frozenset, List[str]] = {}
    for oi, o in enumerate(ref.ops):
        idx = d.blocks[match[oi]]["idx"]
        for side, lab in o.face_labels.items():
            quad = frozenset(idx[c] for c in hexref.SIDE_CORNERS[side])
            exp_faces.setdefault(quad, []).append(lab)
    got_faces: Dict[frozenset, List[str]] = {}
    for q, lab in d.faces:
        got_faces.setdefault(frozenset(q), []).append(lab)
    for quad, labs in got_faces.items():
        if len(labs) > 1:
            bad("face-projected-twice", f"{sorted(quad)}: {labs}")
        if quad not in exp_faces:
            bad("face-undeclared", f"face {sorted(quad)} projected to {labs} was never declared")
        elif labs[0] not in exp_faces[quad]:
            bad("face-label", f"face {sorted(quad)} projected to {labs[0]}, declared {exp_faces[quad]}")
    for quad in exp_faces:
        stats["projected_faces_checked"] += 1
        if quad not in got_faces:
            bad("face-missing", f"declared projection of {sorted(quad)} to {exp_faces[quad]} is not in the file")
    # geometry: the user's entries exactly, plus one searchable sphere per sphere shape;
    # every referenced name is defined
    referenced = set()
    for (_, labs) in d.vertices:
        referenced.update(labs)
    for e in d.edges:
        if e["kind"] == "project":
            referenced.update(e["geometry"])
    for _, lab in d.faces:
        referenced.add(lab)
    sphere_names = {n for n in d.geometry if n.startswith("sphere_")}
    for name, props in ref.geometry.items():
        got = d.geometry.get(name)
        exp = [tuple(p.split(" ", 1)) if " " in p else (p, "") for p in props]
        if got is None:
            bad("geometry-missing", f"declared geometry {name} is not in the file")
        elif [(k, v) for k, v in got] != [(k, v) for k, v in exp]:
            bad("geometry-props", f"geometry {name}: written {got}, declared {exp}")
    for name in d.geometry:
        if name not in ref.geometry and name not in sphere_names:
            bad("geometry-undeclared", f"geometry {name} is in the file but was never declared")
    undefined = sorted(referenced - set(d.geometry))
    if undefined:
        sph = [u for u in undefined if u.startswith("sphere_")]
        bad("geometry-undefined", f"projections refer to {undefined} but geometry defines {sorted(d.geometry)}",
            key="geometry-undefined:" + ("copied-sphere" if sph and any(o["op"] == "copy" for o in program["ops"]) else ("sphere" if sph else "user")))
    # each sphere shape: its faces project to one searchable sphere with its centre and radius
    for s in ref.spheres:
        stats["sphere_geometries_checked"] += 1
        labs = set()
        for oi, o in enumerate(ref.ops):
            if o.name.startswith(s["name"] + "["):
                labs.update(o.face_labels.values())
        labs = {l for l in labs if l.startswith("sphere_")}
        if len(labs) != 1:
            bad("sphere-labels", f"shape {s['name']} projects to {sorted(labs)} (one sphere expected)")
            continue
        lab = next(iter(labs))
        g = dict(d.geometry.get(lab, []))
        if not g:
            continue  # reported above as undefined
        try:
            centre = [float(x) for x in g.get("centre", g.get("origin", "")).strip("()").split()]
            radius = float(g["radius"])
        except Exception:
            bad("sphere-geometry", f"{lab}: {g}")
            continue
        if g.get("type") != "searchableSphere" or models.dist(centre, s["centre"]) > 1e-6 or abs(radius - s["radius"]) > 1e-6:
            bad("sphere-geometry", f"shape {s['name']} (centre {s['centre']}, radius {s['radius']:.6g}) projects to {lab} defined as {g}",
                key="sphere-geometry:" + ("copied" if any(o["op"] == "copy" for o in program["ops"]) else "plain"))
    # debug VTK: the same points and hexahedra
    if run.get("vtk") is not None:
        stats["vtk_checked"] += 1
        try:
            vt = foam.parse_vtk(run["vtk"])
            if [r8(p) for p in vt["points"]] != vpos:
                bad("vtk-points", "the debug VTK lists other points than the dictionary")
            if vt["cells"] != [b["idx"] for b in d.blocks]:
                bad("vtk-cells", f"VTK cells {vt['cells'][:3]}… vs hex entries {[b['idx'] for b in d.blocks][:3]}…")
            if any(t != 12 for t in vt["types"]):
                bad("vtk-cell-types", f"{vt['types']}")
        except foam.FoamSyntaxError as e:
            bad("vtk-unparsable", repr(e))
    elif any(op["op"] == "write" and op.get("debug") for op in program["ops"]):
        bad("vtk-missing", "debug path given but no VTK written")
    return V, stats


_SPH = re.compile(r"sphere_\d+")


def normalise_spheres(text: Optional[str]) -> Optional[str]:
    """consistent renaming of address-derived sphere labels (first occurrence -> sphere_A, ...)"""
    if text is None:
        return None
    names: Dict[str, str] = {}

    def sub(m):
        return names.setdefault(m.group(0), f"sphere_#{len(names)}")

    return _SPH.sub(sub, text)


def evaluate(pid: str, program: Dict[str, Any], scheds: List[Dict[str, Any]]) -> Dict[str, Any]:
    viols, runs = [], []
    stats: Dict[str, int] = {}
    base = None
    for si, sc in enumerate(scheds):
        run = run_once(program, sc)
        V, st = oracle(program, run)
        for k, v in st.items():
            stats[k] = stats.get(k, 0) + v
        for v in V:
            v["sched_index"] = si
        viols += V
        norm = (normalise_spheres(run["dict"]), normalise_spheres(run["vtk"]))
        if base is None:
            base = (si, norm)
        elif norm != base[1]:
            viols.append({"property": "C06", "class": "layout-dependent-output", "key": "layout-dependent-output", "sched_index": si,
                          "detail": f"address layout / hash order {base[0]} and {si} give different files (beyond a consistent renaming of sphere labels)"})
        runs.append({"log": run["log"], "outcome": run["outcome"], "decisions": run["decisions"]})
    return {"violations": viols, "runs": runs, "stats": stats}


def task(seed: int, arg: Dict[str, Any]) -> Dict[str, Any]:
    program = gen_program(seed)
    k = arg.get("k", 2)
    scheds = [{"seed": h64(seed, "s", j) % (1 << 31), "mode": "uniform" if j else "insertion", "ids": "seq" if j % 2 == 0 else "shuffled"} for j in range(k)]
    ev = evaluate("C06", program, scheds)
    out: Dict[str, Any] = {"seed": seed, "violations": [], "runs": len(ev["runs"]), "stats": ev["stats"]}
    has_shape = any(op["op"] == "shape" for op in program["ops"])
    out["klass"] = "with-shape" if has_shape else "plain"
    decorated = ev["stats"].get("patch_quads_checked", 0) + ev["stats"].get("projected_faces_checked", 0) > 0
    out["sigs"] = [(digest(program), r["log"], decorated) for r in ev["runs"]]
    for v in ev["violations"]:
        v = dict(v)
        si = v.pop("sched_index", 0)
        v["replay"] = {"program": program, "schedules": [scheds[0], scheds[si]] if v["class"] == "layout-dependent-output" else [scheds[si]]}
        out["violations"].append(v)
    if arg.get("sample"):
        out["sample"] = {"program_ops": [op for op in program["ops"] if op["op"] != "chop"][:40], "schedules": scheds}
    return out


def replay_check(pid: str, rp: Dict[str, Any]) -> List[Dict[str, Any]]:
    return evaluate(pid, rp["program"], rp["schedules"])["violations"]


def shrink_candidates(rp):
    prog = rp["program"]
    ops = prog["ops"]
    ents = [op["name"] for op in ops if op["op"] in ("hex", "box", "extrude", "revolve", "shape", "copy", "chain")]
    if len(ents) > 1:
        for n in ents:
            # dropping a source of a copy/chain would break the program
            if any(op.get("source") == n for op in ops):
                continue
            c = dict(rp)
            c["program"] = {"ops": [op for op in ops if not (op.get("name") == n and op["op"] != "geometry" and op["op"] not in ("patch", "modify_patch", "default_patch", "zone")) and op.get("target") != n]}
            yield c
    for i in range(len(ops) - 2, -1, -1):
        if ops[i]["op"] in ("patch", "zone", "project_side", "project_corner", "project_edge", "merge", "default_patch", "modify_patch", "setting", "delete", "shape_patch"):
            c = dict(rp)
            c["program"] = {"ops": ops[:i] + ops[i + 1:]}
            yield c
    for i, sc in enumerate(rp["schedules"]):
        if sc.get("mode") != "insertion":
            c = dict(rp)
            c["schedules"] = list(rp["schedules"])
            c["schedules"][i] = dict(sc, mode="insertion", seed=0)
            yield c


def _first_diff(a: str, b: str) -> str:
    la, lb = a.split("\n"), b.split("\n")
    for i, (x, y) in enumerate(zip(la, lb)):
        if x != y:
            return f"line {i + 1}: {x.strip()[:90]!r} vs {y.strip()[:90]!r}"
    return f"{len(la)} vs {len(lb)} lines"
