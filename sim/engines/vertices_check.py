"""C05 engine: one vertex per distinct point; duplicates only across merged patches.

Simulated dimensions: iteration order of the patch-name sets built per corner (what
PYTHONHASHSEED does to a set of str), order of mesh.add, order of merge_patches calls.
Oracle: union of (position cluster, slave patches touching that corner of that operation).
"""

import math
import re
from typing import Any, Dict, List, Optional, Tuple

from .. import foam, hexref, models, seams
from ..program import Interp
from ..streams import Stream, digest, h64
from . import propagation as P

DICT_PATH = P.DICT_PATH
SELFTEST_ARG = {"pid": "C05", "norders": 2, "k": 2}
POOL = ["inlet", "outlet", "wall", "sym", "cyc_a", "cyc_b"]

TIERS = {"quick": (2200, 3, 3, 100), "thorough": (40000, 4, 6, 1500)}


def _unit(rs: Stream) -> List[float]:
    while True:
        v = [rs.uniform(-1, 1) for _ in range(3)]
        n = math.sqrt(sum(x * x for x in v))
        if 0.2 < n <= 1:
            return [x / n for x in v]


def gen_model(seed: int) -> Dict[str, Any]:
    rs = Stream(seed, "workload", "C05")
    n = rs.weighted([(2, 4), (3, 4), (4, 3), (5, 2), (6, 1)])
    mix = rs.pick([(1.0, 0.0, 0.0), (0.7, 0.2, 0.1), (0.5, 0.3, 0.2)])
    cells = P.gen_cells(rs.sub("cells"), n, mix)
    spacing = [rs.uniform(0.5, 2.0) for _ in range(3)]
    jit = rs.pick([0.0, 0.1])
    node_pos: Dict[Tuple[int, int, int], List[float]] = {}
    p_near = rs.pick([0.0, 0.3, 0.6])
    p_detach = rs.pick([0.0, 0.0, 0.15, 0.3])
    p_collapse = Stream(seed, "collapse").pick([0.0, 0.0, 0.0, 0.0, 0.0, 0.0, 0.3, 0.6])
    collapsed = False
    blocks = []
    per_node: Dict[Tuple[int, int, int], List[List[float]]] = {}
    for i, c in enumerate(cells):
        detach_block = rs.chance(p_detach * 0.5)  # a block that touches nothing exactly
        corners = []
        intent = []
        for off in hexref.CORNER_POS:
            node = (c[0] + off[0], c[1] + off[1], c[2] + off[2])
            if node not in node_pos:
                jr = Stream(seed, "node", node)
                node_pos[node] = [node[k] * spacing[k] + (jr.uniform(-jit, jit) * min(spacing) if jit else 0.0) for k in range(3)]
            base = node_pos[node]
            if detach_block or rs.chance(p_detach):
                # a distinct point: 1.5e-6 .. 1e-3 away (log-uniform), and >= 1.2e-6 from every other point there
                for _ in range(50):
                    u = _unit(rs)
                    d = 10 ** rs.uniform(math.log10(1.5e-6), -3)
                    pos = [base[k] + u[k] * d for k in range(3)]
                    if all(models.dist(pos, q) >= 1.2e-6 for q in per_node.get(node, [])):
                        break
                per_node.setdefault(node, []).append(pos)
                intent.append(("d", i, node))
            elif rs.chance(p_near):
                u = _unit(rs)
                d = rs.uniform(1e-10, 5e-9)
                pos = [base[k] + u[k] * d for k in range(3)]
                intent.append(("n", node))
            else:
                pos = list(base)
                intent.append(("n", node))
            corners.append(pos)
        # a collapsed block (wedge touching its axis, prism, pyramid): some corners of one operation at the same point.
        # (The library cannot grade an edge of no length, so these models are assembled and judged on the mesh, not written.)
        kr = Stream(seed, "collapse", i)
        if p_collapse and kr.chance(p_collapse):
            how = kr.pick(["edge", "two_edges", "two_edges", "face"])
            pairs = {"edge": [(4, 0)], "two_edges": [(4, 0), (5, 1)], "face": [(5, 4), (6, 4), (7, 4)]}[how]
            for (dst, src) in pairs:
                corners[dst] = list(corners[src]) if kr.chance(0.7) else [x + kr.uniform(-2e-9, 2e-9) for x in corners[src]]
                intent[dst] = intent[src]
            collapsed = True
        # 'near' points stay within 1e-8 of each other, 'detached' ones >= 1.2e-6 from everything
        rot = hexref.IDENTITY if rs.chance(0.4) else rs.randrange(24)
        blocks.append({"name": f"b{i}", "corners": hexref.renumber(corners, rot), "intent": hexref.renumber(intent, rot), "rot": rot, "cell": list(c)})
    names = POOL[: rs.randint(2, len(POOL))]
    p_patch = rs.pick([0.3, 0.6, 0.9])
    patches = []
    for b in blocks:
        for side in hexref.SIDES:
            if rs.chance(p_patch):
                patches.append({"target": b["name"], "side": side, "name": rs.pick(names)})
    nm = rs.weighted([(0, 3), (1, 4), (2, 3), (3, 2)])
    merges = []
    tries = 0
    while len(merges) < nm and tries < 20:
        tries += 1
        m, s = rs.pick(names), rs.pick(names)
        if m == s or [m, s] in merges:
            continue
        merges.append([m, s])
    delete = rs.randrange(100) if rs.chance(0.25) else None
    model = {"blocks": blocks, "patches": patches, "merges": merges, "delete": delete}
    if collapsed:
        model["collapsed"] = True
    # curved edges on some operations (evaluating an edge must not disturb the vertices it joins): three-point
    # arcs, arcs by an origin that is not quite equidistant (the library adjusts it), helical angle-and-axis arcs
    er = Stream(seed, "edges", "C05")
    if er.chance(0.25) and not collapsed:
        for b in blocks:
            if not er.chance(0.5):
                continue
            for (c1, c2) in er.shuffled(list(P._slots()))[: er.randint(1, 3)]:
                Pp, Q = b["corners"][c1], b["corners"][c2]
                mid = [(x + y) / 2 for x, y in zip(Pp, Q)]
                chord = [y - x for x, y in zip(Pp, Q)]
                kind = er.weighted([("arc", 3), ("origin", 3), ("angle", 3)])
                if kind == "arc":
                    e = {"c1": c1, "c2": c2, "kind": "arc", "data": [round(mid[k] + er.uniform(0.05, 0.15), 6) for k in range(3)]}
                elif kind == "origin":
                    off = _unit(er)
                    e = {"c1": c1, "c2": c2, "kind": "origin", "data": [round(mid[k] + 0.9 * off[k] + er.uniform(-0.08, 0.08) * chord[k], 6) for k in range(3)]}
                else:
                    e = {"c1": c1, "c2": c2, "kind": "angle", "angle": round(er.uniform(0.3, 1.2), 4), "axis": [round(x, 4) for x in _unit(er)]}
                b.setdefault("edges", []).append(e)
    # corners projected to a geometry by some of the operations that meet there (a projection is an
    # attribute of the vertex, not part of its identity)
    pj = Stream(seed, "projections", "C05")
    if pj.chance(0.25):
        model["projects"] = [{"target": b["name"], "corner": c, "label": pj.pick(["terrain", "terrain", "pipe"])}
                             for b in blocks for c in range(8) if pj.chance(0.2)]
    # an operation built on another operation's own top face (as Extrude(lower.top_face, ...) or a Loft from it
    # does): the two share the Face object and its points. Only where the script's points are identical anyway.
    sh = Stream(seed, "shared_face", "C05")
    shared = False
    for j, bj in enumerate(blocks):
        for i, bi in enumerate(blocks[:j]):
            if bi["rot"] == hexref.IDENTITY and bj["rot"] == hexref.IDENTITY and bj["cell"] == [bi["cell"][0], bi["cell"][1], bi["cell"][2] + 1] \
                    and bi["corners"][4:] == bj["corners"][:4] and "base" not in bj and sh.chance(0.5):
                bj["base"] = bi["name"]
                shared = True
                # the shared face carries one patch name for both operations: none is declared on it
                model["patches"] = [p for p in model["patches"] if not ((p["target"] == bi["name"] and p["side"] == "top")
                                                                      or (p["target"] == bj["name"] and p["side"] == "bottom"))]
                break
    fr = Stream(seed, "flips", "C05")
    if fr.chance(0.25):
        model["inverts"] = [b["name"] for b in blocks if fr.chance(0.5)] or [blocks[0]["name"]]
        if fr.chance(0.3) and not shared:  # (transforming two operations that share a face moves that face twice: C09's subject)
            u = _unit(fr)
            model["mirror"] = {"normal": [round(x, 6) for x in u], "origin": [round(fr.uniform(-1, 1), 3) for _ in range(3)]}
    return model


def make_program(model: Dict[str, Any], cfg_seed: int, identity: bool = False) -> Dict[str, Any]:
    cs = Stream(cfg_seed, "config", "C05")
    ops: List[Dict[str, Any]] = []
    for b in model["blocks"]:
        ops.append(dict({"op": "hex", "name": b["name"], "corners": b["corners"]}, **({"edges": b["edges"]} if b.get("edges") else {}),
                        **({"base_face_of": b["base"]} if b.get("base") else {})))
        for a in range(3):
            ops.append({"op": "chop", "target": b["name"], "axis": a, "args": {"count": 2}})
    for p in model["patches"]:
        ops.append({"op": "patch", "target": p["target"], "side": p["side"], "name": p["name"]})
    if model.get("projects"):
        for lab in sorted({pr["label"] for pr in model["projects"]}):
            ops.append({"op": "geometry", "name": lab, "props": ["type triSurfaceMesh", f"name {lab}", f'file "{lab}.stl"']})
        for pr in model["projects"]:
            ops.append({"op": "project_corner", "target": pr["target"], "corner": pr["corner"], "label": pr["label"]})
    names = [b["name"] for b in model["blocks"]]
    order = list(names) if identity else cs.shuffled(names)
    merges = list(model["merges"]) if identity else cs.shuffled(model["merges"])
    # merge declarations may come before or after the adds (both before assembly)
    merge_first = identity or cs.chance(0.5)
    mops = [{"op": "merge", "master": m, "slave": s} for m, s in merges]
    aops = [{"op": "add", "target": n} for n in order]
    # sometimes an operation is excluded again (never the last one)
    dops = []
    if len(names) > 2 and model.get("delete") is not None:
        dops = [{"op": "delete", "target": names[model["delete"] % len(names)]}]
    aops = aops + dops
    late = (not identity) and cs.chance(0.3)
    # operations turned over (top and bottom face swapped) or mirrored (which turns them over too):
    # part of the model, so every configuration does it; when, relative to a first assembly, varies
    flips = [{"op": "invert", "target": n} for n in model.get("inverts", [])]
    if model.get("mirror"):
        flips += [dict({"op": "mirror", "target": n}, **model["mirror"]) for n in names]
    if late and mops:
        # the mesh was assembled once before some of the pairs were declared; it is cleared and
        # assembled again (connectivity must be that of the model as it stands at the last assembly)
        cut = cs.randrange(len(mops))
        ops += mops[:cut] + aops + [{"op": "assemble"}] + mops[cut:] + flips + [{"op": "clear"}]
    elif flips and cs.chance(0.6):
        # (second assembly: the same Mesh cleared, or a second Mesh object given the same operations)
        ops += ((mops + aops) if merge_first else (aops + mops)) + [{"op": "assemble"}] + flips + [{"op": "clear"} if cs.chance(0.6) else {"op": "remesh"}]
    else:
        ops += flips + ((mops + aops) if merge_first else (aops + mops))
    ops.append({"op": "assemble"})
    if not model.get("collapsed"):
        ops.append({"op": "write", "path": DICT_PATH})
    return {"ops": ops, "point_type": cs.pick(["list", "list", "tuple", "array"])}


# -- reference -----------------------------------------------------------------------------

SIDE_OF_CORNER: Dict[int, List[str]] = {i: [s for s in hexref.SIDES if i in hexref.SIDE_CORNERS[s]] for i in range(8)}


def _reflect(p, normal, origin):
    nn = math.sqrt(sum(x * x for x in normal))
    u = [x / nn for x in normal]
    o = origin or [0.0, 0.0, 0.0]
    d = sum((p[k] - o[k]) * u[k] for k in range(3))
    return [p[k] - 2 * d * u[k] for k in range(3)]


def effective_model(program: Dict[str, Any]):
    """the model as it stands at the end of the script: corner points per block (after being turned
    over / mirrored), patch name per (block, side), merges, surviving blocks in add order"""
    hexes, patches, merges, added = {}, {}, [], []
    deleted = set()
    for op in program["ops"]:
        if op["op"] == "hex":
            hexes[op["name"]] = {"name": op["name"], "corners": [list(c) for c in op["corners"]]}
        elif op["op"] in ("invert", "mirror"):
            h = hexes[op["target"]]
            if op["op"] == "mirror":
                h["corners"] = [_reflect(c, op["normal"], op.get("origin")) for c in h["corners"]]
            # turned over: the old top face is the new bottom face, and the patches travel with the faces
            h["corners"] = h["corners"][4:] + h["corners"][:4]
            pp = patches.setdefault(op["target"], {})
            t, b = pp.pop("top", None), pp.pop("bottom", None)
            if t is not None:
                pp["bottom"] = t
            if b is not None:
                pp["top"] = b
        elif op["op"] == "patch":
            sides = op["side"] if isinstance(op["side"], list) else [op["side"]]
            for s in sides:
                patches.setdefault(op["target"], {})[s] = op["name"]
        elif op["op"] == "merge":
            merges.append((op["master"], op["slave"]))
        elif op["op"] == "add":
            added.append(op["target"])
        elif op["op"] == "delete":
            deleted.add(op["target"])
    added = [n for n in added if n not in deleted]
    return hexes, patches, merges, added


def reference_partition(program: Dict[str, Any]) -> Tuple[List[str], List[List[Any]]]:
    """per added block (add order), per corner: the key (cluster id, slave patches at that corner)"""
    hexes, patches, merges, added = effective_model(program)
    slaves = {s for (_, s) in merges}
    allpos = []
    for n in added:
        allpos += hexes[n]["corners"]
    ids = models.cluster_points(allpos, tol=3e-7)
    keys = []
    k = 0
    for n in added:
        row = []
        for c in range(8):
            touching = {patches.get(n, {}).get(s) for s in SIDE_OF_CORNER[c]} - {None}
            row.append((ids[k], tuple(sorted(touching & slaves))))
            k += 1
        keys.append(row)
    return added, keys


def partition_signature(rows: List[List[Any]]) -> Tuple:
    """canonical form of a labelling up to renaming: first-occurrence numbering"""
    seen: Dict[Any, int] = {}
    out = []
    for row in rows:
        for x in row:
            if x not in seen:
                seen[x] = len(seen)
            out.append(seen[x])
    return tuple(out)


_VLINE = re.compile(r"//\s*(\d+)\s*$")


def run_once(program: Dict[str, Any], sched: Dict[str, Any]) -> Dict[str, Any]:
    seams.install_standard()
    world = seams.World(sched_seed=sched.get("seed", 0), mode=sched.get("mode", "uniform"), explicit=sched.get("explicit"))
    out: Dict[str, Any] = {"outcome": "?", "msg": ""}
    it = Interp(program)
    live = {}

    def after(i, op):
        if op["op"] == "assemble":
            live["indexes"] = [list(b.indexes) for b in it.mesh.blocks]
            live["positions"] = [[float(x) for x in v.position] for v in it.mesh.vertices]
            live["vertex_indexes"] = [int(v.index) for v in it.mesh.vertices]

    it.hooks["after"] = after
    with seams.run_world(world):
        try:
            it.run()
            out["outcome"] = "ok"
        except Exception as e:
            out["outcome"] = "exc:" + type(e).__name__
            out["msg"] = str(e)[:300]
    out["live"] = live
    out["text"] = world.fs.files.get(DICT_PATH)
    out["decisions"] = world.decisions
    world.event("outcome", out["outcome"], digest(out["text"]))
    out["log"] = digest(world.log)
    return out


def oracle(program: Dict[str, Any], run: Dict[str, Any]) -> Tuple[List[Dict[str, Any]], Optional[Tuple]]:
    V: List[Dict[str, Any]] = []

    def bad(klass, detail):
        V.append({"property": "C05", "class": klass, "key": klass, "detail": detail})

    added, keys = reference_partition(program)
    if run["outcome"] != "ok":
        bad("write-failed", f"outcome {run['outcome']}: {run['msg']}")
        return V, None
    if not any(op["op"] == "write" for op in program["ops"]):
        return oracle_live(program, run, added, keys, V, bad)
    try:
        parsed = foam.parse_blockmeshdict(run["text"])
    except Exception as e:
        bad("unparsable", repr(e))
        return V, None
    if len(parsed.blocks) != len(added):
        bad("block-count", f"{len(parsed.blocks)} hex entries for {len(added)} operations")
        return V, None
    got = [blk["idx"] for blk in parsed.blocks]
    n = len(parsed.vertices)
    # dense, equal to the position in the list
    used = sorted({i for row in got for i in row})
    if used != list(range(n)):
        bad("indices-not-dense", f"vertices listed: {n}, indices used by blocks: {used[:20]}…")
    text = run["text"]
    sec = text[text.index("vertices"): text.index("blocks")]
    numbered = [int(m.group(1)) for ln in sec.split("\n") if (m := _VLINE.search(ln))]
    if numbered != list(range(n)):
        bad("index-not-position", f"vertex comments {numbered[:12]}… for {n} entries")
    if run["live"].get("indexes") is not None and run["live"]["indexes"] != got:
        bad("live-vs-written", "Block.indexes differ from the written hex entries")
    # partition equals the reference
    sig_ref = partition_signature(keys)
    sig_got = partition_signature(got)
    if sig_ref != sig_got:
        # describe the first disagreement
        where = None
        flat_ref = [(added[b], c, keys[b][c]) for b in range(len(added)) for c in range(8)]
        flat_got = [got[b][c] for b in range(len(added)) for c in range(8)]
        for i in range(len(flat_ref)):
            for j in range(i):
                same_ref = flat_ref[i][2] == flat_ref[j][2]
                same_got = flat_got[i] == flat_got[j]
                if same_ref != same_got:
                    where = (f"{flat_ref[i][0]} corner {flat_ref[i][1]} and {flat_ref[j][0]} corner {flat_ref[j][1]}: "
                             f"reference says {'same' if same_ref else 'different'} vertex (keys {flat_ref[i][2]} / {flat_ref[j][2]}), "
                             f"written {flat_got[i]} / {flat_got[j]}")
                    break
            if where:
                break
        merged = any(k[1] for row in keys for k in row)
        bad("wrong-connectivity", where or "partitions differ", )
        V[-1]["key"] = "wrong-connectivity:" + ("merged" if merged else "plain")
    declared = sorted((op["master"], op["slave"]) for op in program["ops"] if op["op"] == "merge")
    if sorted(parsed.merge_pairs) != declared:
        bad("merge-pairs-lost", f"mergePatchPairs written {parsed.merge_pairs}, declared {declared}")
    # every corner's vertex is at the corner's point
    hexes = effective_model(program)[0]
    for b, nme in enumerate(added):
        for c in range(8):
            i = got[b][c]
            if i < n and models.dist(parsed.vertices[i][0], hexes[nme]["corners"][c]) > 2e-7:
                bad("vertex-position", f"{nme} corner {c} at {hexes[nme]['corners'][c]} refers to vertex {i} at {parsed.vertices[i][0]}")
                break
    return V, sig_got


def oracle_live(program, run, added, keys, V, bad):
    """models that are assembled only (collapsed blocks): judged on Block.indexes and the vertex list"""
    got = run["live"].get("indexes")
    pos = run["live"].get("positions")
    if got is None or len(got) != len(added):
        bad("block-count", f"{0 if got is None else len(got)} blocks for {len(added)} operations")
        return V, None
    n = len(pos)
    used = sorted({i for row in got for i in row})
    if used != list(range(n)):
        bad("indices-not-dense", f"vertices listed: {n}, indices used by blocks: {used[:20]}…")
    if run["live"].get("vertex_indexes") is not None and run["live"]["vertex_indexes"] != list(range(n)):
        bad("index-not-position", f"Vertex.index {run['live']['vertex_indexes'][:12]}… for {n} entries")
    sig_ref = partition_signature(keys)
    sig_got = partition_signature(got)
    if sig_ref != sig_got:
        where = None
        flat_ref = [(added[b], c, keys[b][c]) for b in range(len(added)) for c in range(8)]
        flat_got = [got[b][c] for b in range(len(added)) for c in range(8)]
        for i in range(len(flat_ref)):
            for j in range(i):
                same_ref = flat_ref[i][2] == flat_ref[j][2]
                same_got = flat_got[i] == flat_got[j]
                if same_ref != same_got:
                    where = (f"{flat_ref[i][0]} corner {flat_ref[i][1]} and {flat_ref[j][0]} corner {flat_ref[j][1]}: "
                             f"reference says {'same' if same_ref else 'different'} vertex (keys {flat_ref[i][2]} / {flat_ref[j][2]}), "
                             f"assembled {flat_got[i]} / {flat_got[j]}")
                    break
            if where:
                break
        merged = any(k[1] for row in keys for k in row)
        bad("wrong-connectivity", where or "partitions differ")
        V[-1]["key"] = "wrong-connectivity:" + ("merged" if merged else "plain") + ":collapsed"
    hexes = effective_model(program)[0]
    for b, nme in enumerate(added):
        for c in range(8):
            i = got[b][c]
            if i < n and models.dist(pos[i], hexes[nme]["corners"][c]) > 2e-7:
                bad("vertex-position", f"{nme} corner {c} at {hexes[nme]['corners'][c]} refers to vertex {i} at {pos[i]}")
                break
    return V, sig_got


def evaluate(pid: str, program: Dict[str, Any], scheds: List[Dict[str, Any]]) -> Dict[str, Any]:
    viols, runs = [], []
    first = None
    for si, sc in enumerate(scheds):
        run = run_once(program, sc)
        V, sig = oracle(program, run)
        for v in V:
            v["sched_index"] = si
        viols += V
        if first is None:
            first = (si, sig, run["text"], run["live"].get("indexes"))
        elif sig is not None and first[1] is not None and (sig != first[1] or run["text"] != first[2] or run["live"].get("indexes") != first[3]):
            viols.append({"property": "C05", "class": "schedule-dependent-vertices", "key": "schedule-dependent-vertices", "sched_index": si,
                          "detail": f"patch-set order {first[0]} and {si} give different vertex numbering/connectivity for the same script"})
        runs.append({"log": run["log"], "decisions": run["decisions"], "sig": sig, "outcome": run["outcome"]})
    return {"violations": viols, "runs": runs}


def by_block_signature(program, sig) -> Optional[Tuple]:
    """partition expressed per block name (so that different add orders can be compared)"""
    if sig is None:
        return None
    gone = {op["target"] for op in program["ops"] if op["op"] == "delete"}
    added = [op["target"] for op in program["ops"] if op["op"] == "add" and op["target"] not in gone]
    rows = {n: sig[8 * i: 8 * i + 8] for i, n in enumerate(added)}
    ordered = [rows[n] for n in sorted(rows)]
    return partition_signature(ordered)


def task(seed: int, arg: Dict[str, Any]) -> Dict[str, Any]:
    model = gen_model(seed)
    norders, k = arg["norders"], arg["k"]
    out: Dict[str, Any] = {"seed": seed, "violations": [], "runs": 0, "stats": {}, "sigs": []}
    base = None
    mdig = digest(model)
    merged = 0
    for ci in range(norders):
        program = make_program(model, h64(seed, "cfg", ci) % (1 << 31), identity=(ci == 0))
        scheds = [{"seed": h64(seed, "s", ci, j) % (1 << 31), "mode": "uniform" if j else "insertion"} for j in range(k)]
        ev = evaluate("C05", program, scheds)
        out["runs"] += len(ev["runs"])
        _, keys = reference_partition(program)
        nslave = sum(1 for row in keys for kk in row if kk[1])
        nclusters = len({kk for row in keys for kk in row})
        shared = 8 * len(keys) - nclusters
        merged = 1 if nslave else 0
        for r in ev["runs"]:
            out["sigs"].append((mdig, ci, r["log"], shared > 0))
            out["stats"]["patch_set_decisions"] = out["stats"].get("patch_set_decisions", 0) + r["decisions"]
        for v in ev["violations"]:
            v = dict(v)
            si = v.pop("sched_index", 0)
            v["replay"] = {"program": program, "schedules": [scheds[0], scheds[si]] if v["class"] == "schedule-dependent-vertices" else [scheds[si]]}
            out["violations"].append(v)
        sig = by_block_signature(program, ev["runs"][0]["sig"])
        if base is None:
            base = (sig, program, scheds[0])
        elif sig is not None and base[0] is not None and sig != base[0]:
            out["violations"].append({"property": "C05", "class": "order-dependent-connectivity", "key": "order-dependent-connectivity",
                                      "detail": f"add/merge order {ci} connects corners differently from order 0",
                                      "replay": {"program": base[1], "program_b": program, "schedules": [base[2], scheds[0]]}})
        if ci == 0:
            out["stats"]["programs_with_slave_corners"] = merged
            out["stats"]["slave_corners"] = nslave
            out["stats"]["shared_corners"] = shared
            multi = sum(1 for row in keys for kk in row if len(kk[1]) >= 2)
            out["stats"]["corners_where_two_slave_patches_meet"] = multi
            intents = [x for b in model["blocks"] for x in b["intent"]]
            out["stats"]["detached_corners"] = sum(1 for x in intents if x[0] == "d")
            out["stats"]["models_with_collapsed_blocks"] = 1 if model.get("collapsed") else 0
    out["klass"] = "merged" if merged else "plain"
    if arg.get("sample"):
        out["sample"] = {"program_ops": program["ops"][:40], "schedule": scheds[-1]}
    return out


def replay_check(pid: str, rp: Dict[str, Any]) -> List[Dict[str, Any]]:
    if "program_b" not in rp:
        return evaluate(pid, rp["program"], rp["schedules"])["violations"]
    a = evaluate(pid, rp["program"], [rp["schedules"][0]])
    b = evaluate(pid, rp["program_b"], [rp["schedules"][1]])
    found = a["violations"] + b["violations"]
    sa = by_block_signature(rp["program"], a["runs"][0]["sig"])
    sb = by_block_signature(rp["program_b"], b["runs"][0]["sig"])
    if sa is not None and sb is not None and sa != sb:
        found.append({"property": "C05", "class": "order-dependent-connectivity", "key": "order-dependent-connectivity", "detail": "orders connect corners differently"})
    return found


def shrink_candidates(rp):
    for key in ("program", "program_b"):
        if key not in rp or ("program_b" in rp and key == "program"):
            continue
        prog = rp[key]
        names = [op["name"] for op in prog["ops"] if op["op"] == "hex"]
        if "program_b" not in rp and len(names) > 1:
            for n in names:
                c = dict(rp)
                c[key] = {"ops": [op for op in prog["ops"] if not (op.get("name") == n or op.get("target") == n)]}
                yield c
        if "program_b" not in rp:
            for i, op in enumerate(prog["ops"]):
                if op["op"] in ("patch", "merge"):
                    c = dict(rp)
                    c[key] = {"ops": prog["ops"][:i] + prog["ops"][i + 1:]}
                    yield c
    for i, sc in enumerate(rp["schedules"]):
        if sc.get("mode") != "insertion":
            c = dict(rp)
            c["schedules"] = list(rp["schedules"])
            c["schedules"][i] = {"seed": 0, "mode": "insertion"}
            yield c
