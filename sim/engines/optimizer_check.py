"""C13 engine: the optimizer under a simulated minimiser, RNG, clock and set order.

Faults are injected where the code meets an external iterative solver whose stopping
point it does not control: the solver may stall, wander (its last evaluation is not its
best - and the grid keeps whatever the last evaluation left), or hit a degenerate cell.
Invariants are checked after every optimize_clamp step and after optimize()."""

import math
from typing import Any, Dict, List, Optional, Tuple

import numpy as np

from .. import hexref, seams
from ..program import Interp
from ..streams import Stream, digest, h64

SELFTEST_ARG = {"pid": "C13", "tier": "quick", "light": True}
TIERS = {"quick": (300, 100), "thorough": (6000, 1700)}
HASHSEED_SLICE = {"quick": 3, "thorough": 24}  # scenarios cost ~1 s each and the cross-check runs them serially
METHODS = ["SLSQP", "L-BFGS-B", "Nelder-Mead", "Powell"]
FAULTS = ["real", "stall", "wander", "wander_after_real", "degenerate"]

# ---------------------------------------------------------------------------------------
# own geometry (independent of classy_blocks.util.functions)
# ---------------------------------------------------------------------------------------


def unit(v):
    v = np.asarray(v, dtype=float)
    return v / np.linalg.norm(v)


def rodrigues(p, angle, axis, origin):
    p = np.asarray(p, dtype=float) - origin
    k = unit(axis)
    return origin + p * math.cos(angle) + np.cross(k, p) * math.sin(angle) + k * np.dot(k, p) * (1 - math.cos(angle))


def mirror_pt(p, normal, origin):
    n = unit(normal)
    p = np.asarray(p, dtype=float)
    return p - 2 * np.dot(p - origin, n) * n


def signed_angle(r0, r1, axis):
    a = math.atan2(np.dot(np.cross(r0, r1), unit(axis)), np.dot(r0, r1))
    return a


# ---------------------------------------------------------------------------------------
# scenario
# ---------------------------------------------------------------------------------------


def gen_scenario(seed: int, light: bool = False) -> Dict[str, Any]:
    rs = Stream(seed, "workload", "C13")
    kind = rs.weighted([("mesh", 0.65), ("sketch", 0.35)])
    sc: Dict[str, Any] = {"kind": kind, "seed": seed}
    jit = rs.pick([0.05, 0.12, 0.2])
    # geo-referenced models: coordinates of millions with features of decimetres
    offset, spacing = [0.0, 0.0, 0.0], [1.0, 1.0, 1.0]
    if not light and rs.chance(0.1):
        offset = [round(rs.uniform(2e5, 8e5), 0), round(rs.uniform(3e6, 6e6), 0), round(rs.uniform(0, 500), 0)]
        spacing[rs.randrange(3)] = 0.3
    sc["offset"], sc["spacing"] = offset, spacing
    if kind == "mesh":
        dims = rs.pick([(2, 2, 1), (2, 2, 1), (2, 1, 1), (2, 2, 2), (3, 2, 1)] if not light else [(2, 2, 1), (2, 1, 1)])
        nodes = {}
        for i in range(dims[0] + 1):
            for j in range(dims[1] + 1):
                for k in range(dims[2] + 1):
                    nodes[(i, j, k)] = [offset[0] + spacing[0] * (i + rs.uniform(-jit, jit)), offset[1] + spacing[1] * (j + rs.uniform(-jit, jit)),
                                        offset[2] + spacing[2] * (k + rs.uniform(-jit, jit))]
        cells = [(i, j, k) for i in range(dims[0]) for j in range(dims[1]) for k in range(dims[2])]
        sc["dims"] = dims
    else:
        dims = rs.pick([(3, 3), (4, 3), (2, 2), (3, 2)] if not light else [(2, 2), (3, 2)])
        nodes = {}
        for i in range(dims[0] + 1):
            for j in range(dims[1] + 1):
                nodes[(i, j, 0)] = [offset[0] + spacing[0] * (i + rs.uniform(-jit, jit)), offset[1] + spacing[1] * (j + rs.uniform(-jit, jit)), 0.0]
        cells = [(i, j, 0) for i in range(dims[0]) for j in range(dims[1])]
        sc["dims"] = dims
    keys = sorted(nodes)
    # some models keep part of their points on whole-number coordinates; a script then writes those
    # points as ints (link end points are passed that way)
    wr = rs.sub("whole")
    if not light and offset == [0.0, 0.0, 0.0] and wr.chance(0.2):
        sc["link_points_as"] = "int_where_whole"
        for k in keys:
            if wr.chance(0.6):
                nodes[k] = [float(k[0]), float(k[1]), float(k[2])]
    sc["nodes"] = {f"{k[0]}_{k[1]}_{k[2]}": [round(x, 6) for x in nodes[k]] for k in keys}
    sc["cells"] = [list(c) for c in cells]
    names = list(sc["nodes"])
    sc["auto"] = kind == "sketch" and rs.chance(0.2)
    eligible = list(names)
    if sc["auto"]:
        # auto_optimize clamps every interior point itself: manual clamps and link
        # followers go on boundary points only (as its documentation asks)
        eligible = [n for n in names if n.split("_")[0] in ("0", str(dims[0])) or n.split("_")[1] in ("0", str(dims[1]))]
    # clamps
    nclamp = rs.randint(1, 4 if not light else 2)
    chosen = rs.shuffled(eligible)[:nclamp]
    clamps = []
    for nme in chosen:
        p = np.array(sc["nodes"][nme])
        if kind == "mesh":
            t = rs.weighted([("free", 3), ("line", 3), ("plane", 2), ("radial", 2), ("curve_line", 2), ("curve_circle", 1), ("curve_interp", 2), ("surface", 1)])
        else:
            t = rs.weighted([("plane", 4), ("line", 3), ("radial", 1), ("curve_line", 2), ("curve_interp", 2)])
        spec: Dict[str, Any] = {"node": nme, "type": t}
        inplane = kind == "sketch"

        def direction():
            if inplane:
                a = rs.uniform(0, 2 * math.pi)
                return [math.cos(a), math.sin(a), 0.0]
            return list(unit([rs.uniform(-1, 1), rs.uniform(-1, 1), rs.uniform(-1, 1)]) if True else [])

        # sometimes the constraint ends at (or just past) the vertex: a bounded solver then
        # stops on the bound, and the next iteration starts from there
        near_end = rs.chance(0.4)
        if t == "line":
            d = np.array(direction())
            a, b = rs.uniform(0.1, 0.5), (rs.pick([0.0, rs.uniform(0.0, 0.03)]) if near_end else rs.uniform(0.1, 0.5))
            if rs.chance(0.45):
                # the line starts at the vertex itself, and the clamp is built from the vertex's own
                # position array (as the library's examples do); usually it is aimed at the place the
                # vertex was jittered away from and stops short of it, so that the upper bound is active
                ideal = np.array([offset[q] + spacing[q] * float(x) for q, x in enumerate(nme.split("_"))])
                if kind == "sketch":
                    ideal[2] = 0.0
                gap = float(np.linalg.norm(ideal - p))
                if gap > 0.02 and rs.chance(0.7):
                    d = (ideal - p) / gap
                    a, b = 0.0, rs.uniform(0.3, 0.7) * gap
                else:
                    a, b = 0.0, rs.uniform(0.2, 0.6)
                spec["from_vertex"] = True
            spec["p1"] = [round(x, 6) for x in (p - a * d)]
            spec["p2"] = [round(x, 6) for x in (p + b * d)]
            if rs.chance(0.5) and not near_end and not spec.get("from_vertex"):
                L = float(np.linalg.norm(np.array(spec["p2"]) - np.array(spec["p1"])))
                spec["bounds"] = [round(rs.uniform(0, 0.3) * L, 6), round(rs.uniform(0.7, 1.0) * L, 6)]
        elif t == "plane":
            spec["normal"] = [0.0, 0.0, 1.0] if inplane else direction()
        elif t == "radial":
            n = np.array([0.0, 0.0, 1.0]) if inplane else np.array(direction())
            # centre somewhere off the vertex, in the plane through the vertex normal to n
            off = np.cross(n, unit([0.3, 0.5, 0.8] if abs(n[0]) > 0.8 else [1.0, 0.2, 0.1]))
            off = unit(off) * rs.uniform(0.4, 1.5)
            spec["center"] = [round(x, 6) for x in (p + off)]
            spec["normal"] = [round(x, 6) for x in n]
            if rs.chance(0.5):
                spec["bounds"] = rs.pick([[round(-rs.uniform(0.05, 0.4), 6), round(rs.uniform(0.05, 0.4), 6)], [0, round(rs.uniform(0.05, 0.4), 6)],
                                          [round(-rs.uniform(0.05, 0.4), 6), 0.0]])
        elif t == "curve_line":
            d = np.array(direction())
            a, b = rs.uniform(0.2, 0.6), (rs.pick([0.0, rs.uniform(0.0, 0.03)]) if near_end else rs.uniform(0.2, 0.6))
            spec["p1"] = [round(x, 6) for x in (p - a * d)]
            spec["p2"] = [round(x, 6) for x in (p + b * d)]
        elif t == "curve_circle":
            n = np.array(direction())
            off = unit(np.cross(n, unit([0.3, 0.5, 0.8] if abs(n[0]) > 0.8 else [1.0, 0.2, 0.1]))) * rs.uniform(0.5, 1.5)
            spec["origin"] = [round(x, 6) for x in (p + off)]
            spec["normal"] = [round(x, 6) for x in n]
            a0 = rs.uniform(0.2, 1.0)
            spec["rim_angle"] = round(a0, 6)  # the rim point is the vertex rotated back by a0
            spec["bounds"] = [0.0, round(a0 + rs.uniform(0.2, 1.0), 6)]
        elif t == "curve_interp":
            d = np.array(direction())
            e = np.array([0.0, 0.0, 1.0]) if not inplane else np.array([-d[1], d[0], 0.0])
            if not inplane:
                e = unit(np.cross(d, unit([0.3, 0.5, 0.8] if abs(d[0]) > 0.8 else [1.0, 0.2, 0.1])))
            pts = []
            for s in ((-0.6, -0.4, -0.2, 0.0) if near_end else (-0.5, -0.25, 0.0, 0.25, 0.5)):
                bend = 0.0 if s == 0.0 else rs.uniform(-0.05, 0.05)
                pts.append([round(x, 6) for x in (p + s * d + bend * e)])
            spec["points"] = pts
        elif t == "surface":
            # a paraboloid sheet through the vertex: z' = c*(u^2+v^2) in a local frame
            spec["curvature"] = round(rs.uniform(-0.5, 0.5), 4)
            spec["normal"] = direction()
            # parameter bounds; the vertex sits at (0, 0), which may be exactly on a bound
            spec["sbounds"] = [rs.pick([[-0.5, 0.5], [0, 0.5], [-0.5, 0], [0.0, 0.3]]), rs.pick([[-0.5, 0.5], [-0.5, 0.5], [0, 0.5], [-0.4, 0.0]])]
        clamps.append(spec)
    sc["clamps"] = clamps
    # links
    links = []
    free_nodes = [n for n in eligible if n not in chosen]
    nlink = rs.weighted([(0, 5), (1, 3), (2, 1)]) if not light else rs.weighted([(0, 2), (1, 1)])
    for _ in range(nlink):
        if not free_nodes:
            break
        leader = rs.pick(chosen)
        follower = rs.pick(free_nodes)
        free_nodes.remove(follower)
        lt = rs.weighted([("translation", 3), ("rotation", 2), ("symmetry", 2)])
        lk: Dict[str, Any] = {"leader": leader, "follower": follower, "type": lt}
        pl = np.array(sc["nodes"][leader])
        pf = np.array(sc["nodes"][follower])
        if lt == "rotation":
            ax = np.array([0.0, 0.0, 1.0])
            origin = (pl + pf) / 2 + np.array([rs.uniform(0.3, 1.0), rs.uniform(0.3, 1.0), 0.0])
            lk["axis"] = list(ax)
            lk["origin"] = [round(x, 6) for x in origin]
        elif lt == "symmetry":
            # plane half-way between the two; the follower is placed exactly at the mirror image
            n = unit(pf - pl)
            origin = (pl + pf) / 2 if rs.chance(0.7) else np.zeros(3)
            if np.linalg.norm(origin) == 0:
                # plane through the global origin: mirror the leader there (follower node moves)
                n = np.array([1.0, 0.0, 0.0]) if abs(pl[0]) > 0.05 else np.array([0.0, 1.0, 0.0])
            # a plane normal need not be a unit vector
            scale = rs.pick([1.0, 1.0, rs.uniform(0.3, 3.0)])
            lk["normal"] = [round(x * scale, 6) for x in n]
            lk["origin"] = [round(x, 6) for x in origin]
            img = mirror_pt(pl, np.array(lk["normal"]), np.array(lk["origin"]))
            # only usable when the image is a sensible place for that vertex (close to where it was)
            if np.linalg.norm(img - pf) > 0.3:
                lk["type"] = "translation"
            else:
                lk["follower_at"] = [float(x) for x in img]
        links.append(lk)
    # "swing": the leader sits on a small circle (RadialClamp) whose far side is where it wants to
    # be, and a follower is tied to it by a RotationLink about the same axis - the leader then turns
    # far more than a quarter turn
    if kind == "mesh" and not light and rs.chance(0.22) and len(names) > 2:
        nme = rs.pick(names)
        p = np.array(sc["nodes"][nme])
        ideal = np.array([offset[q] + spacing[q] * float(x) for q, x in enumerate(nme.split("_"))])
        gap = ideal - p
        if float(np.linalg.norm(gap)) > 0.03:
            u = gap / np.linalg.norm(gap)
            r = rs.uniform(0.08, 0.2)
            centre = p + r * u
            n = np.cross(u, unit([0.3, 0.5, 0.8] if abs(u[0]) > 0.8 else [1.0, 0.2, 0.1]))
            n = unit(n)
            spec = {"node": nme, "type": "radial", "center": [round(x, 6) for x in centre], "normal": [round(x, 6) for x in n]}
            clamps = [c for c in clamps if c["node"] != nme] + [spec]
            links = [l for l in links if l["follower"] != nme]  # a clamped vertex cannot also follow someone
            others = [x for x in names if x != nme and x not in [c["node"] for c in clamps] and x not in [l["follower"] for l in links]]
            if others:
                fol = rs.pick(others)
                links = [l for l in links if l["leader"] != nme and l["follower"] != fol]
                links.append({"leader": nme, "follower": fol, "type": "rotation", "axis": spec["normal"], "origin": spec["center"]})
            sc["clamps"] = clamps
            sc["swing"] = True
    sc["links"] = links
    sc["report"] = rs.sub("report").chance(0.3)  # the summary printout on or off (printing itself is silenced)
    # a mistyped link first (its follower is at no vertex): add_link refuses it, the script carries on
    br = rs.sub("badlink")
    if clamps and br.chance(0.25):
        sc["bad_links"] = [{"leader": br.pick([c["node"] for c in clamps]), "offset": [round(br.uniform(0.2, 9.0), 3) for _ in range(3)]}]
    sc["repeat"] = rs.chance(0.4)  # optimize() is called a second time on the same optimizer
    sc["method"] = rs.pick(METHODS if not light else ["SLSQP", "L-BFGS-B"])
    sc["iterations"] = rs.randint(1, 3 if not light else 2)
    # fault plan: per minimiser call
    pf = rs.pick([0.0, 0.25, 0.5])
    sc["fault_rate"] = pf
    sc["fault_seed"] = rs.randrange(1 << 30)
    sc["clock"] = rs.pick(["steady", "jump_forward", "jump_backward", "frozen"])
    sc["rng"] = rs.pick(["seeded", "biased"])
    return sc


# ---------------------------------------------------------------------------------------
# building the model and clamps from the scenario
# ---------------------------------------------------------------------------------------


def build(sc: Dict[str, Any]):
    import classy_blocks as cb

    nodes = sc["nodes"]
    if sc["kind"] == "mesh":
        ops = []
        for ci, c in enumerate(sc["cells"]):
            corners = [nodes[f"{c[0]+o[0]}_{c[1]+o[1]}_{c[2]+o[2]}"] for o in hexref.CORNER_POS]
            ops.append({"op": "hex", "name": f"b{ci}", "corners": corners})
            ops.append({"op": "add", "target": f"b{ci}"})
        ops.append({"op": "assemble"})
        it = Interp({"ops": ops})
        it.run()
        return it.mesh, None
    order = list(nodes)
    index = {n: i for i, n in enumerate(order)}
    quads = []
    for c in sc["cells"]:
        i, j = c[0], c[1]
        quads.append([index[f"{i}_{j}_0"], index[f"{i+1}_{j}_0"], index[f"{i+1}_{j+1}_0"], index[f"{i}_{j+1}_0"]])
    sketch = cb.MappedSketch([nodes[n] for n in order], quads)
    return None, sketch


def surface_frame(spec, p):
    n = unit(spec["normal"])
    u = unit(np.cross(n, unit([0.3, 0.5, 0.8] if abs(n[0]) > 0.8 else [1.0, 0.2, 0.1])))
    v = np.cross(n, u)
    return n, u, v


def make_clamp(spec: Dict[str, Any], p: np.ndarray, live: Optional[np.ndarray] = None):
    import classy_blocks as cb

    t = spec["type"]
    if t == "free":
        return cb.FreeClamp(p)
    if t == "line":
        b = tuple(spec["bounds"]) if "bounds" in spec else None
        if spec.get("from_vertex") and live is not None:
            return cb.LineClamp(live, live, live + (np.array(spec["p2"]) - np.array(spec["p1"])), b)
        return cb.LineClamp(p, spec["p1"], spec["p2"], b)
    if t == "plane":
        return cb.PlaneClamp(p, p, spec["normal"])
    if t == "radial":
        return cb.RadialClamp(p, spec["center"], spec["normal"], spec.get("bounds"))
    if t == "curve_line":
        return cb.CurveClamp(p, cb.LineCurve(spec["p1"], spec["p2"]))
    if t == "curve_circle":
        rim = rodrigues(p, -spec["rim_angle"], spec["normal"], np.array(spec["origin"]))
        return cb.CurveClamp(p, cb.CircleCurve(spec["origin"], rim, spec["normal"], tuple(spec["bounds"])))
    if t == "curve_interp":
        return cb.CurveClamp(p, cb.LinearInterpolatedCurve(spec["points"]))
    if t == "surface":
        n, u, v = surface_frame(spec, p)
        c = spec["curvature"]
        p0 = np.array(p, dtype=float)

        def fn(params):
            return p0 + params[0] * u + params[1] * v + c * (params[0] ** 2 + params[1] ** 2) * n

        return cb.ParametricSurfaceClamp(p, fn, [list(b) for b in spec.get("sbounds", [[-0.5, 0.5], [-0.5, 0.5]])])
    raise ValueError(t)


def manifold_error(spec: Dict[str, Any], p0: np.ndarray, x: np.ndarray) -> Tuple[float, Optional[str]]:
    """distance of x from the clamp's manifold (own formulas) and a bounds complaint, if any"""
    t = spec["type"]
    tolb = 1e-7
    if t == "free":
        return 0.0, None
    if t in ("line", "curve_line"):
        p1, p2 = np.array(spec["p1"]), np.array(spec["p2"])
        u = unit(p2 - p1)
        s = float(np.dot(x - p1, u))
        d = float(np.linalg.norm((x - p1) - s * u))
        L = float(np.linalg.norm(p2 - p1))
        lo, hi = (spec["bounds"] if "bounds" in spec else (0.0, L)) if t == "line" else (0.0, L)
        msg = None if lo - tolb <= s <= hi + tolb else f"line parameter {s:.6g} outside [{lo}, {hi}]"
        return d, msg
    if t == "plane":
        return abs(float(np.dot(x - p0, unit(spec["normal"])))), None
    if t == "radial":
        c, n = np.array(spec["center"]), unit(spec["normal"])
        r0 = (p0 - c) - np.dot(p0 - c, n) * n
        r1 = (x - c) - np.dot(x - c, n) * n
        d = math.hypot(float(np.linalg.norm(r1) - np.linalg.norm(r0)), float(np.dot(x - c, n) - np.dot(p0 - c, n)))
        msg = None
        if "bounds" in spec:
            tpar = signed_angle(r0, r1, n) * float(np.linalg.norm(r0))
            lo, hi = spec["bounds"]
            if not (lo - 1e-6 <= tpar <= hi + 1e-6):
                msg = f"radial parameter {tpar:.6g} outside [{lo}, {hi}]"
        return d, msg
    if t == "curve_circle":
        c, n = np.array(spec["origin"]), unit(spec["normal"])
        rim = rodrigues(p0, -spec["rim_angle"], n, c)
        r0 = (rim - c) - np.dot(rim - c, n) * n
        r1 = (x - c) - np.dot(x - c, n) * n
        d = math.hypot(float(np.linalg.norm(r1) - np.linalg.norm(r0)), float(np.dot(x - c, n) - np.dot(rim - c, n)))
        a = signed_angle(r0, r1, n)
        if a < -1e-6:
            a += 2 * math.pi
        lo, hi = spec["bounds"]
        msg = None if lo - 1e-6 <= a <= hi + 1e-6 else f"circle parameter {a:.6g} outside [{lo}, {hi}]"
        return d, msg
    if t == "curve_interp":
        pts = [np.array(q) for q in spec["points"]]
        best = 1e9
        for a, b in zip(pts[:-1], pts[1:]):
            ab = b - a
            s = max(0.0, min(1.0, float(np.dot(x - a, ab) / np.dot(ab, ab))))
            best = min(best, float(np.linalg.norm(x - (a + s * ab))))
        return best, None
    if t == "surface":
        n, u, v = surface_frame(spec, p0)
        d = x - p0
        a, b = float(np.dot(d, u)), float(np.dot(d, v))
        h = float(np.dot(d, n))
        sb = spec.get("sbounds", [[-0.5, 0.5], [-0.5, 0.5]])
        inside = sb[0][0] - 1e-6 <= a <= sb[0][1] + 1e-6 and sb[1][0] - 1e-6 <= b <= sb[1][1] + 1e-6
        msg = None if inside else f"surface parameters ({a:.5g}, {b:.5g}) outside {sb}"
        return abs(h - spec["curvature"] * (a * a + b * b)), msg
    raise ValueError(t)


# ---------------------------------------------------------------------------------------
# simulated solver / clock
# ---------------------------------------------------------------------------------------


class _Budget(Exception):
    pass


class SimMinimizer:
    """Stands in for the scipy module inside classy_blocks.optimize.optimizer only."""

    def __init__(self, real_scipy, fault_rate: float, fault_seed: int, max_evals: int = 400):
        self._real = real_scipy
        self.optimize = self
        self.rate, self.seed, self.max_evals = fault_rate, fault_seed, max_evals
        self.calls = 0
        self.probe_calls = 0
        self.fired: Dict[str, int] = {k: 0 for k in FAULTS}
        self.evals = 0
        self.budget_hits = 0
        self.interrupted = False

    def approx_fprime(self, xk, f, *a, **k):
        # the sensitivity probe may meet a degenerate cell too (the quality measure raises
        # ValueError): injected at a fraction of the configured fault rate
        self.probe_calls += 1
        fs = Stream(self.seed, "probe", self.probe_calls)
        if fs.random() < self.rate * 0.25:
            xp = np.array(xk, dtype=float)
            eps = k.get("epsilon", a[0] if a else 1e-6)
            xp[fs.randrange(len(xp))] += float(np.atleast_1d(eps)[0])
            f(xp)
            self.fired["probe_degenerate"] = self.fired.get("probe_degenerate", 0) + 1
            w = seams.CURRENT
            if w is not None:
                w.count("fault:solver-probe_degenerate")
                w.event("probe", self.probe_calls, "degenerate")
            raise ValueError("Degenerate Cell: simulated (sensitivity probe)")
        return self._real.optimize.approx_fprime(xk, f, *a, **k)

    def __getattr__(self, name):
        return getattr(self._real.optimize, name)

    def _clip(self, x, bounds):
        x = np.array(x, dtype=float)
        if bounds is not None:
            for i, b in enumerate(bounds):
                if b is None:
                    continue
                lo, hi = b
                if lo is not None:
                    x[i] = max(x[i], lo)
                if hi is not None:
                    x[i] = min(x[i], hi)
        return x

    def minimize(self, fun, x0, bounds=None, method=None, **kw):
        self.calls += 1
        fs = Stream(self.seed, "minimize", self.calls)
        mode = "real"
        if fs.random() < self.rate:
            mode = fs.pick(FAULTS[1:])
        if self.rate and not self.interrupted and Stream(self.seed, "interrupt", self.calls).random() < self.rate * 0.06:
            # the user's Ctrl+C arrives while the solver runs (after one or two of its evaluations)
            mode = "interrupt"
            self.interrupted = True
        self.fired[mode] = self.fired.get(mode, 0) + 1
        w = seams.CURRENT
        if w is not None:
            w.event("minimize", self.calls, mode)
            if mode != "real":
                w.count("fault:solver-" + mode)
        x0 = np.array(x0, dtype=float)
        from scipy.optimize import OptimizeResult

        def wander(start, n):
            x = start
            for _ in range(n):
                x = self._clip(start + np.array([fs.uniform(-0.25, 0.25) for _ in start]), bounds)
                fun(x)
                self.evals += 1
            return x

        if mode == "interrupt":
            wander(x0, fs.randint(1, 2))
            raise KeyboardInterrupt()
        if mode == "stall":
            return OptimizeResult(x=x0, success=False, message="simulated stall")
        if mode == "wander":
            x = wander(x0, fs.randint(1, 4))
            return OptimizeResult(x=x, success=True)
        if mode == "degenerate":
            x = self._clip(x0 + np.array([fs.uniform(-0.25, 0.25) for _ in x0]), bounds)
            fun(x)
            self.evals += 1
            raise ValueError("Degenerate Cell: simulated")
        count = [0]

        def counted(x):
            count[0] += 1
            self.evals += 1
            if count[0] > self.max_evals:
                raise _Budget()
            return fun(x)

        try:
            res = self._real.optimize.minimize(counted, x0, bounds=bounds, method=method, **kw)
        except _Budget:
            self.budget_hits += 1
            res = OptimizeResult(x=x0, success=False, message="evaluation budget")
        if mode == "wander_after_real":
            wander(np.array(res.x, dtype=float), fs.randint(1, 3))
        return res


class SimClock:
    def __init__(self, plan: str):
        self.plan, self.t, self.n = plan, 1.7e9, 0

    def time(self) -> float:
        self.n += 1
        if self.plan == "steady":
            self.t += 0.37
        elif self.plan == "jump_forward":
            self.t += 86400.0 * 400
        elif self.plan == "jump_backward":
            self.t -= 3600.0
        return self.t


# ---------------------------------------------------------------------------------------
# one run
# ---------------------------------------------------------------------------------------


def run_scenario(sc: Dict[str, Any], clock_plan: Optional[str] = None, max_evals: int = 400) -> Dict[str, Any]:
    import scipy

    import classy_blocks as cb
    from classy_blocks.optimize import optimizer as optmod
    from classy_blocks.optimize.clamps import surface as surfmod
    from classy_blocks.optimize import iteration as itermod

    seams.install_standard()
    world = seams.World(sched_seed=h64(sc["seed"], "sched") % (1 << 31), mode="uniform")
    viols: List[Dict[str, Any]] = []
    stats: Dict[str, int] = {"steps": 0, "rollbacks": 0, "skips": 0, "improved": 0}

    def bad(klass, detail, key=None):
        viols.append({"property": "C13", "class": klass, "key": key or klass, "detail": detail})

    sim = SimMinimizer(scipy, sc["fault_rate"], sc["fault_seed"], max_evals=sc.get("max_evals", max_evals))
    clock = SimClock(clock_plan or sc["clock"])
    undo = []
    state = np.random.get_state()
    np.random.seed(h64(sc["seed"], "np") % (1 << 32))
    try:
        undo.append(seams.patch_attr(optmod, "scipy", sim))
        undo.append(seams.patch_attr(optmod, "time", clock))
        undo.append(seams.patch_attr(optmod, "print", lambda *a, **k: None))
        undo.append(seams.patch_attr(itermod, "report", lambda *a, **k: None))
        undo.append(seams.patch_attr(itermod, "print", lambda *a, **k: None))
        if sc["rng"] == "biased":
            undo.append(seams.patch_attr(surfmod, "np", _biased_np(sc["seed"])))
        with seams.run_world(world):
            mesh, sketch = build(sc)
            names = list(sc["nodes"])
            if mesh is not None:
                pos = [np.array(v.position, dtype=float) for v in mesh.vertices]
            else:
                pos = [np.array(p, dtype=float) for p in sketch.positions]

            def index_of(node):
                p = np.array(sc["nodes"][node])
                d = [float(np.linalg.norm(q - p)) for q in pos]
                i = int(np.argmin(d))
                if d[i] > 1e-6:
                    raise seams.SimAbort("harness: node not found")
                return i

            pre_moves = {}
            clamps = []
            for spec in sc["clamps"]:
                i = index_of(spec["node"])
                try:
                    live = mesh.vertices[i].position if mesh is not None else None
                    c = make_clamp(spec, pos[i].copy(), live)
                except Exception as e:
                    bad("clamp-construction", f"{spec['type']} clamp at a point on its manifold raised {type(e).__name__}: {e}")
                    continue
                clamps.append((spec, i, c, pos[i].copy()))
                pre_moves[i] = np.array(c.position, dtype=float)  # snapped onto the manifold
            # symmetry followers are placed at the exact mirror image of their leader (where the leader
            # really is: on its clamp's snapped position) before the optimizer sees the model
            for lk in sc["links"]:
                if lk["type"] == "symmetry":
                    li_ = index_of(lk["leader"])
                    lead = pre_moves.get(li_, pos[li_])
                    pre_moves[index_of(lk["follower"])] = mirror_pt(lead, np.array(lk["normal"]), np.array(lk["origin"]))
            # apply pre-moves to the model, then create the optimizer from it
            if mesh is not None:
                for i, p in pre_moves.items():
                    mesh.vertices[i].move_to(p)
                opt = cb.MeshOptimizer(mesh, report=bool(sc.get("report")))
            else:
                newpos = [np.array(p) for p in sketch.positions]
                for i, p in pre_moves.items():
                    newpos[i] = p
                sketch.update(newpos)
                opt = cb.SketchOptimizer(sketch, report=bool(sc.get("report")))
            grid = opt.grid
            clamp_of: Dict[int, Tuple[Dict[str, Any], Any, np.ndarray]] = {}
            for spec, i, c, p0 in clamps:
                try:
                    opt.add_clamp(c)
                    clamp_of[i] = (spec, c, p0)
                except Exception as e:
                    bad("add-clamp", f"{spec['type']} clamp created at vertex {i} could not be registered: {type(e).__name__}: {e}")
            link_specs = []
            for bl in sc.get("bad_links", []):
                li = index_of(bl["leader"])
                if li not in clamp_of:
                    continue
                lp = grid.points[li].copy()
                try:
                    opt.add_link(cb.TranslationLink(lp, lp + np.array(bl["offset"]) + 1000.0))
                    stats["bad_link_accepted"] = stats.get("bad_link_accepted", 0) + 1
                except Exception:
                    stats["bad_link_refused"] = stats.get("bad_link_refused", 0) + 1
            for lk in sc["links"]:
                li, fi = index_of(lk["leader"]), index_of(lk["follower"])
                if li not in clamp_of:
                    continue
                lp, fp = grid.points[li].copy(), grid.points[fi].copy()
                if sc.get("link_points_as") == "int_where_whole":
                    if all(float(x).is_integer() for x in lp):
                        lp = [int(x) for x in lp]
                    if all(float(x).is_integer() for x in fp):
                        fp = [int(x) for x in fp]
                try:
                    if lk["type"] == "translation":
                        link = cb.TranslationLink(lp, fp)
                    elif lk["type"] == "rotation":
                        link = cb.RotationLink(lp, fp, lk["axis"], lk["origin"])
                    else:
                        link = cb.SymmetryLink(lp, fp, lk["normal"], lk["origin"])
                    opt.add_link(link)
                    link_specs.append((lk, li, fi, grid.points[li].copy(), grid.points[fi].copy()))
                except Exception as e:
                    bad("add-link", f"{lk['type']} link between two existing vertices could not be registered: {type(e).__name__}: {str(e)[:120]}",
                        key="add-link:" + lk["type"])
            followers_of: Dict[int, List[Tuple]] = {}
            for item in link_specs:
                followers_of.setdefault(item[1], []).append(item)
            if not clamp_of:
                return {"violations": viols, "stats": stats, "log": digest(world.log), "final": None, "sim": sim}
            # clamp/link registration must not itself move anything
            initial = grid.points.copy()
            for i, (spec, c, p0) in clamp_of.items():
                if float(np.linalg.norm(initial[i] - np.array(c.position))) > 1e-9:
                    bad("registration-moved-clamp", f"after add_clamp/add_link clamp.position of vertex {i} is {c.position}, the vertex is at {initial[i]}")
            q0 = float(grid.quality)
            moved_allowed = set(clamp_of) | {fi for (_, _, fi, _, _) in link_specs}

            def check_links(li, where):
                for (lk, _, fi, l0, f0) in followers_of.get(li, []):
                    L, F = grid.points[li], grid.points[fi]
                    if lk["type"] == "translation":
                        exp = L + (f0 - l0)
                    elif lk["type"] == "rotation":
                        o, ax = np.array(lk["origin"]), unit(lk["axis"])
                        r0 = (l0 - o) - np.dot(l0 - o, ax) * ax
                        r1 = (L - o) - np.dot(L - o, ax) * ax
                        exp = rodrigues(f0, signed_angle(r0, r1, ax), ax, o)
                    else:
                        exp = mirror_pt(L, np.array(lk["normal"]), np.array(lk["origin"]))
                    err = float(np.linalg.norm(F - exp))
                    if err > 1e-7:
                        bad("link-relation-broken", f"{where}: {lk['type']} follower {fi} is at {F}, its relation to leader {li} at {L} gives {exp} (off by {err:.3g})",
                            key="link-relation-broken:" + lk["type"])

            orig_step = getattr(optmod.OptimizerBase, "optimize_clamp", None)

            def step(self_, clamp, method):
                stats["steps"] += 1
                junction = grid.get_junction_from_clamp(clamp)
                ji = junction.index
                if ji not in clamp_of:
                    # a PlaneClamp added by auto_optimize: in the sketch plane through the point
                    clamp_of[ji] = ({"type": "plane", "normal": [0.0, 0.0, 1.0], "auto": True}, clamp, initial[ji].copy())
                before = grid.points.copy()
                qb = float(grid.quality)
                calls_before = sim.calls
                orig_step(self_, clamp, method)
                after = grid.points
                qa = float(grid.quality)
                mode = "?"
                if qa > qb + 1e-9 * abs(qb) + 1e-9:
                    bad("step-worsened-quality", f"optimize_clamp on vertex {ji} ({clamp_of[ji][0]['type']}): grid quality {qb:.10g} -> {qa:.10g}")
                if qa < qb - 1e-12:
                    stats["improved"] += 1
                allowed = {ji} | {fi for (_, _, fi, _, _) in followers_of.get(ji, [])}
                for k in range(len(after)):
                    if k not in allowed and not np.array_equal(after[k], before[k]):
                        bad("step-moved-other-vertex", f"optimize_clamp on vertex {ji} moved vertex {k}: {before[k]} -> {after[k]}")
                        break
                spec, c, p0 = clamp_of[ji]
                d, msg = manifold_error(spec, p0, after[ji])
                if d > 2e-7:
                    bad("off-manifold", f"vertex {ji} ({spec['type']} clamp) is {d:.3g} away from its constraint after a step", key="off-manifold:" + spec["type"])
                if msg:
                    bad("out-of-bounds", f"vertex {ji} ({spec['type']} clamp): {msg}", key="out-of-bounds:" + spec["type"])
                check_links(ji, "after a step")
                if float(np.linalg.norm(np.array(clamp.position) - after[ji])) > 1e-9:
                    stats["clamp_position_differs_from_grid"] = stats.get("clamp_position_differs_from_grid", 0) + 1

            if orig_step is not None:
                undo.append(seams.patch_attr(optmod.OptimizerBase, "optimize_clamp", step))
            cod = getattr(itermod, "ClampOptimizationData", None)
            orig_rb, orig_sk = getattr(cod, "rollback", None), getattr(cod, "skip", None)

            def rb(self_):
                stats["rollbacks"] += 1
                return orig_rb(self_)

            def sk(self_):
                stats["skips"] += 1
                return orig_sk(self_)

            if orig_rb is not None and orig_sk is not None:
                undo.append(seams.patch_attr(cod, "rollback", rb))
                undo.append(seams.patch_attr(cod, "skip", sk))
            def model_positions():
                return np.array([v.position for v in mesh.vertices]) if mesh is not None else np.array(sketch.positions)

            model_before = model_positions()
            try:
                if sc.get("auto") and sketch is not None:
                    opt.auto_optimize(max_iterations=sc["iterations"], tolerance=1e-9, method=sc["method"])
                else:
                    opt.optimize(max_iterations=sc["iterations"], tolerance=1e-9, method=sc["method"])
                    if sc.get("repeat"):
                        stats["repeated_optimize"] = 1
                        q_mid = float(grid.quality)
                        model_before = model_positions()
                        opt.optimize(max_iterations=sc["iterations"], tolerance=1e-9, method=sc["method"])
                        q_end = float(grid.quality)
                        if q_end > q_mid * (1 + 1e-6) + 1e-9:
                            bad("second-optimize-worsened", f"a second optimize() on the same optimizer took the summed quality from {q_mid:.10g} to {q_end:.10g}")
            except KeyboardInterrupt:
                # the interrupt reached the caller: nothing of the unfinished run may have been copied to the model
                # (had optimize() returned normally instead, the usual oracles below would judge what it left)
                stats["interrupted_runs"] = 1
                got = model_positions()
                if got.shape != model_before.shape or not np.array_equal(got, model_before):
                    k = int(np.argmax(np.abs(got - model_before).max(axis=1))) if got.shape == model_before.shape else -1
                    bad("interrupted-half-applied", f"optimize() was interrupted inside the solver and the model was changed all the same (vertex {k})")
                stats["minimizer_calls"] = sim.calls
                stats["objective_evaluations"] = sim.evals
                for k_, v_ in sim.fired.items():
                    stats["solver:" + k_] = v_
                return {"violations": viols, "stats": stats, "log": digest(world.log), "final": None, "sim": sim}
            except Exception as e:
                bad("optimize-raised", f"optimize() raised {type(e).__name__}: {str(e)[:200]}")
                return {"violations": viols, "stats": stats, "log": digest(world.log), "final": None, "sim": sim}
            final = grid.points.copy()
            qf = float(grid.quality)
            if qf > q0 * (1 + 1e-6) + 1e-9:
                bad("total-quality-worse", f"summed quality {q0:.10g} before, {qf:.10g} after optimize()")
            auto_clamped = set()
            if sc.get("auto"):
                auto_clamped = {j.index for j in grid.junctions if j.clamp is not None}
            for k in range(len(final)):
                if k not in moved_allowed and k not in auto_clamped and not np.array_equal(final[k], initial[k]):
                    bad("unclamped-vertex-moved", f"vertex {k} has no clamp and no link but moved {initial[k]} -> {final[k]}")
                    break
            for i, (spec, c, p0) in clamp_of.items():
                d, msg = manifold_error(spec, p0, final[i])
                if d > 2e-7:
                    bad("off-manifold", f"vertex {i} ({spec['type']} clamp) ends {d:.3g} away from its constraint", key="off-manifold:" + spec["type"])
                if msg:
                    bad("out-of-bounds", f"vertex {i} ({spec['type']} clamp) ends with {msg}", key="out-of-bounds:" + spec["type"])
                check_links(i, "after optimize()")
            # copy-back
            if mesh is not None:
                got = np.array([v.position for v in mesh.vertices])
                if got.shape != final.shape or float(np.abs(got - final).max()) > 1e-12:
                    bad("copy-back", "mesh vertices differ from the optimizer's final positions")
            else:
                got = np.array(sketch.positions)
                if float(np.abs(got - final).max()) > 1e-12:
                    bad("copy-back", "sketch positions differ from the optimizer's final positions")
                for fi_, quad in enumerate(sketch.indexes):
                    fp = sketch.faces[fi_].point_array
                    for ci, vi in enumerate(quad):
                        if float(np.abs(fp[ci] - final[vi]).max()) > 1e-12:
                            bad("copy-back", f"face {fi_} corner {ci} not updated to the final position of point {vi}")
                            break
            world.event("final", digest(final.tolist()))
            stats["minimizer_calls"] = sim.calls
            stats["objective_evaluations"] = sim.evals
            stats["evaluation_budget_hits"] = sim.budget_hits
            for k, v in sim.fired.items():
                stats["solver:" + k] = v
            stats["clock_reads"] = clock.n
            return {"violations": viols, "stats": stats, "log": digest(world.log), "final": final, "sim": sim, "sim_time": clock.t - 1.7e9}
    finally:
        for u in reversed(undo):
            u()
        np.random.set_state(state)


def _biased_np(seed):
    import numpy as real_np

    rs = Stream(seed, "biased-np")

    class _Rand:
        def random(self, n):
            return real_np.array([rs.uniform(1e-3, 1e-2) for _ in range(n)])

        def __getattr__(self, name):
            return getattr(real_np.random, name)

    class _Np:
        random = _Rand()

        def __getattr__(self, name):
            return getattr(real_np, name)

    return _Np()


def task(seed: int, arg: Dict[str, Any]) -> Dict[str, Any]:
    sc = gen_scenario(seed, light=arg.get("light", False))
    sc["max_evals"] = 120 if arg.get("tier", "quick") == "quick" else 400
    if arg.get("tier", "quick") == "quick" and sc.get("repeat"):
        sc["iterations"] = min(sc["iterations"], 2)  # two optimize() calls already make up to four iterations
    res = run_scenario(sc)
    out: Dict[str, Any] = {"seed": seed, "violations": [], "runs": 1, "stats": dict(res["stats"]), "klass": sc["kind"]}
    for v in res["violations"]:
        v = dict(v)
        v["replay"] = {"scenario": sc}
        out["violations"].append(v)
    faults_fired = sum(v for k, v in res["stats"].items() if k.startswith("solver:") and k != "solver:real")
    nontrivial = res["stats"].get("steps", 0) > 0
    out["sigs"] = [(digest(sc), res["log"], nontrivial)]
    out["stats"]["sim_time_s"] = int(res.get("sim_time", 0))
    # the result must not depend on the clock at all
    if seed % 8 == 0 and res.get("final") is not None:
        other = "jump_backward" if sc["clock"] != "jump_backward" else "steady"
        res2 = run_scenario(sc, clock_plan=other)
        out["runs"] += 1
        out["stats"]["clock_pairs_compared"] = 1
        if res2.get("final") is None or not np.array_equal(res["final"], res2["final"]):
            out["violations"].append({"property": "C13", "class": "clock-dependent-result", "key": "clock-dependent-result",
                                      "detail": f"same seed, clock plan {sc['clock']} vs {other}: final positions differ", "replay": {"scenario": sc, "clock_b": other}})
    if arg.get("sample"):
        out["sample"] = {k: sc[k] for k in ("kind", "dims", "clamps", "links", "method", "iterations", "fault_rate", "clock", "rng", "auto")}
    return out


def replay_check(pid: str, rp: Dict[str, Any]) -> List[Dict[str, Any]]:
    res = run_scenario(rp["scenario"])
    found = list(res["violations"])
    if "clock_b" in rp:
        res2 = run_scenario(rp["scenario"], clock_plan=rp["clock_b"])
        if res.get("final") is None or res2.get("final") is None or not np.array_equal(res["final"], res2["final"]):
            found.append({"property": "C13", "class": "clock-dependent-result", "key": "clock-dependent-result", "detail": "final positions differ"})
    return found


def shrink_candidates(rp):
    import copy

    sc = rp["scenario"]
    if len(sc["clamps"]) > 1:
        for i in range(len(sc["clamps"])):
            c = copy.deepcopy(rp)
            node = c["scenario"]["clamps"][i]["node"]
            del c["scenario"]["clamps"][i]
            c["scenario"]["links"] = [l for l in c["scenario"]["links"] if l["leader"] != node]
            yield c
    for i in range(len(sc["links"])):
        c = copy.deepcopy(rp)
        del c["scenario"]["links"][i]
        yield c
    if sc["fault_rate"] > 0:
        c = copy.deepcopy(rp)
        c["scenario"]["fault_rate"] = 0.0
        yield c
    if sc["iterations"] > 1:
        c = copy.deepcopy(rp)
        c["scenario"]["iterations"] = sc["iterations"] - 1
        yield c
    if sc["method"] != "SLSQP":
        c = copy.deepcopy(rp)
        c["scenario"]["method"] = "SLSQP"
        yield c
    if sc["rng"] != "seeded":
        c = copy.deepcopy(rp)
        c["scenario"]["rng"] = "seeded"
        yield c


def extra_coverage(results: List[Dict[str, Any]]) -> Dict[str, Any]:
    sim_time = sum(r.get("stats", {}).get("sim_time_s", 0) for r in results)
    kinds = {k: sum(r.get("stats", {}).get("solver:" + k, 0) for r in results) for k in FAULTS + ["interrupt", "probe_degenerate"]}
    return {"sim_time_s": sim_time, "simulated_time": f"{sim_time} simulated seconds read through the clock seam (plans: steady, jump forward, jump backward, frozen)",
            "solver_calls_by_mode": kinds}
