"""The less common entities of the public API as propagation / render workloads: elbows, half cylinders,
revolved rings, revolved / extruded stacks over sketches, extruded / revolved / lofted shapes over every
disk, oval, spline and mapped sketch, shells, connectors, wedges, plain revolves and three-branch joints.

The generator knows nothing about how an entity lays out its operations: it builds the entity once
(construction only, no mesh), reads every operation's eight points, lets the reference model join them
into edge families and places chops per family on operations of its choice (`sub_chop`)."""

import math
from typing import Any, Dict, List, Tuple

from .. import models
from ..program import Interp
from ..streams import Stream

KINDS = [
    ("elbow", 2), ("semicylinder", 2), ("revolvedring", 2), ("rstack", 2), ("estack", 1), ("extruded", 5), ("revolved", 3), ("lofted", 3),
    ("shell", 2), ("connector", 2), ("wedge", 2), ("revolve", 1), ("njoint", 1),
]

DISKS = ["onecore", "fourcore", "halfdisk", "wrapped", "oval", "splinedisk", "halfsplinedisk", "quartersplinedisk", "splinering", "mapped", "grid"]


def _unit(v):
    n = math.sqrt(sum(x * x for x in v)) or 1.0
    return [x / n for x in v]


def _perp(axis):
    ref = [1.0, 0.0, 0.0] if abs(axis[0]) < 0.8 else [0.0, 1.0, 0.0]
    v = [axis[1] * ref[2] - axis[2] * ref[1], axis[2] * ref[0] - axis[0] * ref[2], axis[0] * ref[1] - axis[1] * ref[0]]
    return _unit(v)


def _cross(a, b):
    return [a[1] * b[2] - a[2] * b[1], a[2] * b[0] - a[0] * b[2], a[0] * b[1] - a[1] * b[0]]


def _r(x, n=4):
    return [round(float(v), n) for v in x]


def gen_sketch(rs: Stream, kind: str, o, ax, pr, R) -> Dict[str, Any]:
    """a sketch centred at `o` with normal `ax`; `pr` is a unit vector in its plane"""
    q = _cross(ax, pr)
    rp = [o[i] + R * pr[i] for i in range(3)]
    if kind in ("onecore", "fourcore", "halfdisk"):
        return {"kind": kind, "c": _r(o), "r": _r(rp), "n": _r(ax, 6)}
    if kind == "wrapped":
        h = R * rs.uniform(0.3, 0.5)
        corner = [o[i] - h * pr[i] - h * q[i] for i in range(3)]
        return {"kind": kind, "c": _r(o), "corner": _r(corner), "radius": round(R, 4), "n": _r(ax, 6)}
    if kind == "oval":
        d = R * rs.uniform(0.8, 2.0)
        return {"kind": kind, "c": _r(o), "c2": _r([o[i] + d * pr[i] for i in range(3)]), "n": _r(ax, 6), "radius": round(R * 0.6, 4)}
    if kind in ("splinedisk", "halfsplinedisk", "quartersplinedisk", "splinering"):
        r1, r2 = R, R * rs.uniform(0.7, 1.3)
        k1 = [o[i] + r1 * pr[i] for i in range(3)]
        k2 = [o[i] + r2 * q[i] for i in range(3)]
        s = {"kind": kind, "c": _r(o), "k1": _r(k1), "k2": _r(k2), "s1": round(r1 * rs.uniform(0.0, 0.3), 4), "s2": round(r2 * rs.uniform(0.0, 0.3), 4)}
        if kind == "splinering":
            s["w1"] = round(r1 * rs.uniform(0.15, 0.3), 4)
            s["w2"] = round(r2 * rs.uniform(0.15, 0.3), 4)
        return s
    if kind == "grid":
        n1, n2 = rs.randint(1, 3), rs.randint(1, 2)
        # (Grid lies in the xy-plane by construction)
        return {"kind": "grid", "p1": [round(o[0], 3), round(o[1], 3), 0], "p2": [round(o[0] + R * n1, 3), round(o[1] + 0.8 * R * n2, 3), 0], "n1": n1, "n2": n2}
    if kind == "mapped":
        # an L of three quads or a 2 x 2 patch with a jittered middle, in the plane of the sketch
        def P(u, v):
            return _r([o[i] + R * (u * pr[i] + v * q[i]) for i in range(3)])

        if rs.chance(0.5):
            pos = [P(0, 0), P(1, 0), P(2, 0), P(0, 1), P(1 + rs.uniform(-0.2, 0.2), 1 + rs.uniform(-0.2, 0.2)), P(2, 1), P(0, 2), P(1, 2), P(2, 2)]
            quads = [[0, 1, 4, 3], [1, 2, 5, 4], [3, 4, 7, 6], [4, 5, 8, 7]]
            if rs.chance(0.4):
                quads = quads[:3]
        else:
            pos = [P(0, 0), P(1, 0), P(2, 0.1), P(0, 1), P(1, 1), P(2, 1.2), P(0, 2), P(1, 2)]
            quads = [[0, 1, 4, 3], [1, 2, 5, 4], [3, 4, 7, 6]]
        return {"kind": "mapped", "positions": pos, "quads": quads}
    raise ValueError(kind)


FIXED_AXIS = ("wedge", "revolve", "rstack", "estack", "revolved")  # built round the global axes: moved afterwards, if at all


STRAIGHT = [("estack", 2), ("extruded", 2), ("lofted", 2), ("shell", 2), ("connector", 1)]  # with a grid / mapped sketch: no curved edge


def gen_entity(rs: Stream, offset=None, name: str = "s0", straight: bool = False, kinds=None) -> Tuple[List[Dict[str, Any]], List[str]]:
    """-> (construction ops, names of the entities to add); `offset` puts the entity somewhere else;
    straight: only entities without curved edges; kinds: only these"""
    kind = rs.weighted([k_ for k_ in (STRAIGHT if straight else KINDS) if kinds is None or k_[0] in kinds])
    o = [round(rs.uniform(-3, 3), 3) for _ in range(3)]
    if offset and kind not in FIXED_AXIS:
        o = [round(o[i] + offset[i], 3) for i in range(3)]
    ax = _unit([rs.uniform(-1, 1) for _ in range(3)]) if rs.chance(0.6) else [0.0, 0.0, 1.0]
    L = round(rs.uniform(0.8, 2.5), 3)
    R = round(rs.uniform(0.5, 1.5), 3)
    pr = _perp(ax)
    p2 = [o[i] + L * ax[i] for i in range(3)]
    rp = [o[i] + R * pr[i] for i in range(3)]
    names = ["s0"]
    a: Dict[str, Any]
    if kind == "elbow":
        rot_axis = _cross(ax, pr)
        a = {"c": _r(o), "r1": _r(rp, 9), "n1": _r(ax, 9), "angle": round(rs.uniform(0.4, 2.0) * rs.pick([1, -1]), 3),
             "arc_c": _r([o[i] + 2.5 * R * pr[i] for i in range(3)]), "axis": _r(rot_axis, 9), "r2": round(R * rs.uniform(0.6, 1.2), 3)}
    elif kind == "semicylinder":
        a = {"p1": _r(o), "p2": _r(p2, 9), "r": _r(rp, 9)}
    elif kind == "revolvedring":
        def F(u, v):
            return _r([o[i] + u * ax[i] + v * pr[i] for i in range(3)])

        r0 = R * rs.uniform(0.5, 1.0)
        a = {"p1": _r(o), "p2": _r(p2), "face": [F(0, r0), F(L, r0 * rs.uniform(0.9, 1.1)), F(L * rs.uniform(0.9, 1.1), r0 + R), F(0, r0 + R * rs.uniform(0.8, 1.2))],
             "n": rs.pick([4, 5, 8])}
    elif kind in ("rstack", "estack"):
        sk = gen_sketch(rs.sub("sk"), rs.pick(["grid", "grid", "mapped"] + ([] if straight else ["onecore"])), [1.0 + abs(o[0]), o[1], 0.0], [0.0, 0.0, 1.0], [1.0, 0.0, 0.0], R)
        if kind == "rstack":
            a = {"sketch": sk, "angle": round(rs.uniform(0.4, 1.6), 3), "axis": [0.0, 1.0, 0.0], "origin": [0.0, 0.0, 0.0], "repeats": rs.randint(1, 3)}
        else:
            a = {"sketch": sk, "amount": L, "repeats": rs.randint(1, 3)}
    elif kind in ("extruded", "lofted"):
        sk = gen_sketch(rs.sub("sk"), "mapped" if straight else rs.pick([d for d in DISKS if d != "grid"]), o, ax, pr, R)
        if kind == "extruded":
            a = {"sketch": sk, "amount": L if rs.chance(0.5) else _r([L * x for x in ax])}
        else:
            a = {"sketch": sk, "shift": _r([L * x for x in ax]), "scale": rs.pick([None, round(rs.uniform(0.6, 1.4), 2)]),
                 "twist": rs.pick([None, round(rs.uniform(-0.5, 0.5), 2)]), "mid": rs.pick([None, None, round(rs.uniform(0.8, 1.3), 2)])}
    elif kind == "revolved":
        # sketch in the xy-plane away from the y axis, revolved about it
        sk = gen_sketch(rs.sub("sk"), rs.pick(["onecore", "fourcore", "oval", "splinedisk", "mapped", "grid", "halfdisk"]),
                        [3.0 + abs(o[0]), o[1], 0.0], [0.0, 0.0, 1.0], [1.0, 0.0, 0.0], R * 0.6)
        a = {"sketch": sk, "angle": round(rs.uniform(0.3, 1.5), 3), "axis": [0.0, 1.0, 0.0], "origin": [0.0, 0.0, 0.0]}
    elif kind == "shell":
        sides = rs.sample(["top", "bottom", "left", "right", "front", "back"], rs.randint(1, 4))
        a = {"p1": _r(o), "p2": _r([o[0] + L, o[1] + R, o[2] + 1.0]), "sides": sides, "amount": round(rs.uniform(0.1, 0.5), 3)}
        names = ["s0_base", "s0"] if rs.chance(0.7) else ["s0"]
    elif kind == "connector":
        gap = rs.uniform(0.5, 2.0)
        d = rs.randrange(3)
        q1 = [o[i] + (L + gap if i == d else rs.uniform(-0.2, 0.2)) for i in range(3)]
        a = {"p1": _r(o), "p2": _r([o[0] + L, o[1] + L, o[2] + L]), "q1": _r(q1), "q2": _r([q1[0] + R, q1[1] + R, q1[2] + R])}
        # (general position: the connector picks and re-orients its faces by comparing alignments, and exact ties
        # between them - two axis-aligned boxes - are the reorienter's subject, C18, not this check's)
        a["rot"] = round(rs.uniform(0.05, 0.4) * rs.pick([1, -1]), 3)
        a["rot_axis"] = _r(_unit([rs.uniform(-1, 1) for _ in range(3)]), 6)
        a["rot_a"] = round(rs.uniform(0.05, 0.3) * rs.pick([1, -1]), 3)
        a["rot_a_axis"] = _r(_unit([rs.uniform(-1, 1) for _ in range(3)]), 6)
        names = ["s0_a", "s0", "s0_b"]
    elif kind == "wedge":
        x0, y0 = round(rs.uniform(-1, 1), 3), round(rs.uniform(0.2, 1.0), 3)
        a = {"face": [[x0, y0, 0], [x0 + L, y0, 0], [x0 + L, y0 + R, 0], [x0, y0 + R * rs.uniform(0.8, 1.2), 0]], "angle": rs.pick([None, 0.05, 0.0873])}
        a["face"] = [_r(p) for p in a["face"]]
    elif kind == "revolve":
        x0, y0 = round(rs.uniform(-1, 1), 3), round(rs.uniform(0.5, 1.5), 3)
        a = {"face": [_r(p) for p in [[x0, y0, 0], [x0 + L, y0, 0], [x0 + L, y0 + R, 0], [x0, y0 + R, 0]]], "angle": round(rs.uniform(0.3, 2.0), 3),
             "axis": [1.0, 0.0, 0.0], "origin": [0.0, 0.0, 0.0]}
    elif kind == "njoint":
        a = {"start": _r(o), "center": _r([o[i] + 2.5 * R * ax[i] for i in range(3)], 9), "r": _r([o[i] + 0.5 * R * pr[i] for i in range(3)], 9), "branches": 3}
    else:
        raise ValueError(kind)
    op: Dict[str, Any] = {"op": "zoo", "name": "s0", "kind": kind, "args": a}
    if offset and kind in FIXED_AXIS:
        op["transforms"] = [{"t": "translate", "d": [float(x) for x in offset]}]
    elif kind not in ("wedge", "shell", "connector") and rs.chance(0.3):
        tfs = []
        if rs.chance(0.6):
            tfs.append({"t": "rotate", "angle": round(rs.uniform(-2, 2), 3), "axis": _r(_unit([rs.uniform(-1, 1) for _ in range(3)]), 6), "origin": _r(o)})
        if rs.chance(0.5):
            tfs.append({"t": "translate", "d": _r([rs.uniform(-2, 2) for _ in range(3)])})
        op["transforms"] = tfs
    return [op], names


def snapshot_entities(it: Interp, names: List[str]):
    """every operation of the named entities (flattened, in that order) with its eight points"""
    out = []
    for nme in names:
        ent = it.env[nme]
        opers = [ent] if not hasattr(ent, "operations") else list(ent.operations)
        for j, o in enumerate(opers):
            out.append((nme, j if hasattr(ent, "operations") else None, [[float(x) for x in p] for p in o.point_array],
                        {a: len(o.chops[a]) for a in (0, 1, 2)}))
    return out


def entity_with_chops(rs: Stream, cfg_seed: int, mode=None, offset=None, straight: bool = False, sources: str = "random", kinds=None):
    """-> (construction ops, chop ops, entity names, snapshot, meta); chops placed per edge family.
    mode: complete / omit / conflict (drawn when None)"""
    ops, names = gen_entity(rs.sub("entity"), offset, straight=straight, kinds=kinds)
    kind = ops[0]["kind"]
    meta = {"shapes": "zoo:" + kind, "cfg_seed": cfg_seed}
    it = Interp({"points": {}, "ops": ops})
    try:
        it.run()
        snap = snapshot_entities(it, names)
    except Exception as e:  # noqa: BLE001 - the entity cannot be built from these arguments: an empty program
        meta["category"] = "construction-failed:" + type(e).__name__
        return ops, [], names, None, meta
    allpos: List[List[float]] = []
    for (_, _, pts, _) in snap:
        allpos += pts
    ids = models.cluster_points(allpos, tol=1e-6)
    if any(len(set(ids[8 * k:8 * k + 8])) < 8 for k in range(len(snap))):
        # (seen with connectors between tilted boxes: an operation with coincident corners is no hexahedron -
        # how a connector picks its faces is not this check's subject)
        meta["category"] = "construction-failed:degenerate-operation"
        return ops, [], names, None, meta
    blocks = [models.RefBlock(f"{n}[{j}]", ids[8 * k:8 * k + 8], {}) for k, (n, j, _, _) in enumerate(snap)]
    asm = models.Assembly(blocks)
    fams = asm.families()
    cr = rs.sub("chops")
    mode = mode or cr.weighted([("complete", 6), ("omit", 2.5), ("conflict", 1.5)])
    roots = sorted(fams)
    omit = set(cr.sample(roots, min(len(roots), cr.randint(1, 2)))) if mode == "omit" else set()
    multi = [r_ for r_ in roots if len(fams[r_]) >= 2]
    clash = cr.pick(multi or roots) if mode == "conflict" else None
    chops: List[Dict[str, Any]] = []
    for root in roots:
        members = fams[root]
        # (a direction the entity chops itself - a wedge's single cell - is left alone)
        if any(snap[bi][3][a] for (bi, a, _) in members):
            continue
        if root in omit:
            continue
        c = cr.randint(2, 7)
        nsrc = 1 if cr.chance(0.7) else 2
        if root == clash:
            nsrc = max(2, nsrc)
        if sources == "single":
            nsrc = 1
        srcs = cr.sample(members, min(len(members), nsrc))
        if sources == "all":
            # every member chopped itself, plain counts (for models whose families may be cut by merged patches)
            srcs = list(members)
        for si, (bi, a, _) in enumerate(srcs):
            args: Dict[str, Any] = {"count": c + (cr.pick([1, 2]) if (root == clash and si == 1) else 0)}
            if sources != "all" and cr.chance(0.3):
                args["c2c_expansion"] = round(cr.uniform(0.9, 1.15), 3)
                if straight and nsrc == 1 and cr.chance(0.6):
                    args["preserve"] = cr.pick(["start_size", "end_size"])
            nme, j, _, _ = snap[bi]
            if j is None:
                chops.append({"op": "chop", "target": nme, "axis": a, "args": args})
            else:
                chops.append({"op": "sub_chop", "target": nme, "index": j, "axis": a, "args": args})
    meta["category"] = mode
    # how far apart the entity's own construction leaves corners that coincide (joints: ~1e-9; most others: ~1e-16)
    spread = 0.0
    reps: Dict[int, List[float]] = {}
    for i, pos in zip(ids, allpos):
        r0 = reps.setdefault(i, pos)
        spread = max(spread, max(abs(pos[k] - r0[k]) for k in range(3)))
    meta["coincident_spread"] = spread
    return ops, chops, names, snap, meta


def gen_zoo_program(rs: Stream, cfg_seed: int, dict_path: str, vtk_path: str, straight: bool = False) -> Dict[str, Any]:
    ops, chops, names, snap, meta = entity_with_chops(rs, cfg_seed, mode="complete" if straight else None, straight=straight)
    if snap is None:
        return {"points": {}, "ops": ops, "meta": meta}
    cs = Stream(cfg_seed, "config", "zoo")
    ops = ops + cs.shuffled(chops)
    for nme in cs.shuffled(names):
        ops.append({"op": "add", "target": nme})
    ops.append({"op": "assemble"})
    wr = rs.sub("writes")
    if wr.chance(0.25):
        # the script tries to write, survives whatever happens, and writes again
        ops.append({"op": "try_write", "path": dict_path, "debug": vtk_path})
    ops.append({"op": "write", "path": dict_path, "debug": vtk_path})
    if wr.chance(0.35):
        # the same mesh written a second time: by itself or by a second Mesh object given the same entities
        if wr.chance(0.4):
            ops.append({"op": "remesh"})
            ops.append({"op": "assemble"})
        ops.append({"op": "write", "path": dict_path + ".second"})
    return {"points": {}, "ops": ops, "meta": meta}
