"""Propagation engine: one simulated execution (program x configuration x schedule) feeds
the C01, C02 and C04 oracles."""

import copy
import math
from typing import Any, Dict, List, Optional, Tuple

from .. import foam, hexref, models, seams
from ..program import Interp
from ..streams import Stream, digest, h64

DICT_PATH = "case/system/blockMeshDict"
VTK_PATH = "case/debug.vtk"

CLOSING = {(3, 0), (7, 4)}  # the face-closing edge slots (their direction handling is C07, not claimed)

# ---------------------------------------------------------------------------------------
# workload: lattice assemblies
# ---------------------------------------------------------------------------------------

FACE_DIRS = [(1, 0, 0), (-1, 0, 0), (0, 1, 0), (0, -1, 0), (0, 0, 1), (0, 0, -1)]
EDGE_DIRS = [(a, b, 0) for a in (1, -1) for b in (1, -1)] + [(a, 0, b) for a in (1, -1) for b in (1, -1)] + [
    (0, a, b) for a in (1, -1) for b in (1, -1)
]
VERT_DIRS = [(a, b, c) for a in (1, -1) for b in (1, -1) for c in (1, -1)]


def invert_chop(args: Dict[str, Any]) -> Dict[str, Any]:
    out = dict(args)
    s, e = args.get("start_size"), args.get("end_size")
    out.pop("start_size", None)
    out.pop("end_size", None)
    if e is not None:
        out["start_size"] = e
    if s is not None:
        out["end_size"] = s
    if args.get("c2c_expansion") is not None:
        out["c2c_expansion"] = 1.0 / args["c2c_expansion"]
    if args.get("total_expansion") is not None:
        out["total_expansion"] = 1.0 / args["total_expansion"]
    p = args.get("preserve")
    if p == "start_size":
        out["preserve"] = "end_size"
    elif p == "end_size":
        out["preserve"] = "start_size"
    return out


def gen_cells(rs: Stream, n: int, contact_mix: Tuple[float, float, float]) -> List[Tuple[int, int, int]]:
    cells = [(0, 0, 0)]
    tries = 0
    while len(cells) < n and tries < 200:
        tries += 1
        base = rs.pick(cells)
        kind = rs.weighted([("face", contact_mix[0]), ("edge", contact_mix[1]), ("vertex", contact_mix[2])])
        d = rs.pick(FACE_DIRS if kind == "face" else EDGE_DIRS if kind == "edge" else VERT_DIRS)
        c = (base[0] + d[0], base[1] + d[1], base[2] + d[2])
        if c in cells:
            continue
        xs = [x[0] for x in cells] + [c[0]]
        ys = [x[1] for x in cells] + [c[1]]
        zs = [x[2] for x in cells] + [c[2]]
        if max(xs) - min(xs) > 3 or max(ys) - min(ys) > 3 or max(zs) - min(zs) > 2:
            continue
        cells.append(c)
    return cells


def gen_path(rs: Stream, n: int, p_turn: float) -> List[Tuple[int, int, int]]:
    """a self-avoiding walk of face-connected cells: long propagation chains"""
    cells = [(0, 0, 0)]
    d = rs.pick(FACE_DIRS)
    tries = 0
    while len(cells) < n and tries < 100:
        tries += 1
        if rs.chance(p_turn):
            d = rs.pick(FACE_DIRS)
        c = (cells[-1][0] + d[0], cells[-1][1] + d[1], cells[-1][2] + d[2])
        if c in cells:
            d = rs.pick(FACE_DIRS)
            continue
        cells.append(c)
    return cells


def gen_assembly(rs: Stream, opts: Dict[str, Any]) -> Dict[str, Any]:
    """Geometric description, independent of numbering/add order:
    cells, jittered node table, curved edges, chops per (cell, canonical axis)."""
    n = rs.weighted([(2, 2), (3, 3), (4, 4), (5, 3), (6, 2), (7, 1), (8, 1)])
    n = min(n, opts.get("max_blocks", 8))
    mix = rs.pick([(1.0, 0.0, 0.0), (0.8, 0.15, 0.05), (0.6, 0.3, 0.1)])
    if rs.chance(opts.get("p_path", 0.0)):
        cells = gen_path(rs, max(n, 3), rs.pick([0.0, 0.2, 0.5]))
    else:
        cells = gen_cells(rs, n, mix)
    jit = rs.pick(opts.get("jitters", [0.0, 0.05, 0.15]))
    spacing = [rs.uniform(0.6, 1.8) for _ in range(3)] if rs.chance(0.6) else [1.0, 1.0, 1.0]
    points: Dict[str, List[float]] = {}
    # some assemblies live far from the origin
    origin = [round(rs.uniform(-5000, 5000), 1) for _ in range(3)] if rs.chance(0.1) else [0.0, 0.0, 0.0]
    for c in cells:
        for off in hexref.CORNER_POS:
            node = (c[0] + off[0], c[1] + off[1], c[2] + off[2])
            pid = f"n{node[0]}_{node[1]}_{node[2]}"
            if pid not in points:
                jr = Stream(rs.key, "jit", pid)
                points[pid] = [
                    round(origin[i] + node[i] * spacing[i] + (jr.uniform(-jit, jit) * min(spacing) if jit else 0.0), 6) for i in range(3)
                ]
    blocks = []
    for i, c in enumerate(cells):
        corners = [f"n{c[0]+o[0]}_{c[1]+o[1]}_{c[2]+o[2]}" for o in hexref.CORNER_POS]
        blocks.append({"name": f"b{i}", "cell": list(c), "corners": corners})
    return {"points": points, "blocks": blocks, "curved": {}, "chops": []}


def gen_pie(rs: Stream) -> Dict[str, Any]:
    """k kite-shaped sectors around one axis: the axis edge is shared by every block (an edge may be
    shared by any number of blocks, not only the four of a lattice), every radial face by two."""
    if rs.chance(0.25):
        # a ring closed by two blocks: both are built on the same eight vertices (as two half-turn revolves
        # are), so every one of the twelve edges is shared by both; straight edges here - only lengths matter
        h = rs.uniform(0.6, 1.6)
        base = {"i0": [0.5, 0.0], "o0": [rs.uniform(1.0, 1.4), 0.0], "i1": [-0.5, rs.uniform(0.2, 0.5)], "o1": [-rs.uniform(1.0, 1.4), rs.uniform(0.2, 0.5)]}
        points = {}
        for nm, (x, y) in base.items():
            points[nm + "_0"] = [round(x, 6), round(y, 6), 0.0]
            points[nm + "_1"] = [round(x, 6), round(y, 6), round(h, 6)]
        a = ["i0", "o0", "o1", "i1"]
        b = ["i1", "o1", "o0", "i0"]
        blocks = [{"name": "b0", "cell": [0, 0, 0], "corners": [x + "_0" for x in a] + [x + "_1" for x in a]},
                  {"name": "b1", "cell": [1, 0, 0], "corners": [x + "_0" for x in b] + [x + "_1" for x in b]}]
        return {"points": points, "blocks": blocks, "curved": {}, "chops": [], "pie": 2}
    if rs.chance(0.2):
        # a ring closed by two blocks whose cross-section rolls a quarter turn on the way round: they share two
        # faces, and one direction of either block runs along two different directions of the other
        sx, sy, h = rs.uniform(0.7, 1.3), rs.uniform(0.7, 1.3), rs.uniform(0.8, 1.5)
        xy = [[0.0, 0.0], [sx, 0.0], [sx, sy], [0.0, sy]]
        points = {}
        for i, (x, y) in enumerate(xy):
            points[f"t{i}_0"] = [round(x, 6), round(y, 6), 0.0]
            points[f"t{i}_1"] = [round(x + rs.uniform(-0.1, 0.1), 6), round(y + rs.uniform(-0.1, 0.1), 6), round(h, 6)]
        blocks = [{"name": "b0", "cell": [0, 0, 0], "corners": [f"t{i}_0" for i in range(4)] + [f"t{i}_1" for i in range(4)]},
                  {"name": "b1", "cell": [1, 0, 0], "corners": [f"t{i}_1" for i in range(4)] + [f"t{(i + 1) % 4}_0" for i in range(4)]}]
        return {"points": points, "blocks": blocks, "curved": {}, "chops": [], "pie": 2}
    k = rs.weighted([(3, 2), (4, 2), (5, 2), (6, 2), (8, 2), (12, 1), (19, 1), (20, 2), (22, 1), (24, 2)])
    m = k + (rs.pick([1, 2, 3]) if rs.chance(0.3) else 0)  # a full circle, or part of one
    m = max(m, 3)
    h = rs.uniform(0.6, 1.6)
    origin = [round(rs.uniform(-500, 500), 1) for _ in range(3)] if rs.chance(0.1) else [0.0, 0.0, 0.0]
    points: Dict[str, List[float]] = {}

    def put(pid, r, ang, z):
        points[pid] = [round(origin[0] + r * math.cos(ang), 6), round(origin[1] + r * math.sin(ang), 6), round(origin[2] + z, 6)]

    points["ax_0"] = [origin[0], origin[1], origin[2]]
    points["ax_1"] = [origin[0], origin[1], round(origin[2] + h, 6)]
    step = 2 * math.pi / m
    nspoke = k if m == k else k + 1
    for i in range(nspoke):
        r = rs.uniform(0.8, 1.2)
        for lv, z in ((0, 0.0), (1, h)):
            put(f"p{i}_{lv}", r, i * step, z)
    for i in range(k):
        r = rs.uniform(1.5, 1.9)
        for lv, z in ((0, 0.0), (1, h)):
            put(f"k{i}_{lv}", r, (i + 0.5) * step, z)
    blocks = []
    for i in range(k):
        j = (i + 1) % nspoke
        corners = [f"ax_0", f"p{i}_0", f"k{i}_0", f"p{j}_0", f"ax_1", f"p{i}_1", f"k{i}_1", f"p{j}_1"]
        blocks.append({"name": f"b{i}", "cell": [i, 0, 0], "corners": corners})
    return {"points": points, "blocks": blocks, "curved": {}, "chops": [], "pie": k}


def _edge_len(points, p, q) -> float:
    return models.dist(points[p], points[q])


def place_chops(rs: Stream, geo: Dict[str, Any], opts: Dict[str, Any]) -> Dict[str, Any]:
    """Decides, per edge family of the canonical assembly, who is chopped and how."""
    refblocks = [models.RefBlock(b["name"], b["corners"]) for b in geo["blocks"]]
    asm = models.Assembly(refblocks)
    fams = asm.families()
    category = rs.weighted(opts.get("categories", [("ok", 0.55), ("undefined", 0.2), ("conflict", 0.25)]))
    roots = sorted(fams)
    multi_roots = [r for r in roots if len(fams[r]) >= 2]
    skip = set()
    conflict_root = None
    if category == "undefined":
        k = 1 if rs.chance(0.7) else 2
        skip = set(rs.shuffled(roots)[:k])
    if category == "conflict":
        if multi_roots:
            # (sometimes among the families of the blocks created last)
            conflict_root = rs.pick(multi_roots[-3:]) if rs.chance(0.3) else rs.pick(multi_roots)
        else:
            category = "ok"
    # both kinds at once, sometimes
    if category == "conflict" and rs.chance(0.15):
        others = [r for r in roots if r != conflict_root]
        if others:
            skip = {rs.pick(others)}
    chops = []
    # per program: mostly single-source families (long propagation chains) or mostly multi-source
    p_multi = opts.get("p_multi_source", 0.5) if rs.chance(0.6) else 0.1
    meta = {"category": category, "families": len(roots), "multi_source": 0, "diff_expansion": 0, "size_based": 0,
            "preserve": 0, "multi_section": 0, "adjacent_conflict": 0}
    for r in roots:
        if r in skip:
            continue
        members = fams[r]  # (bi, axis, parity)
        lens = []
        for (bi, a, _) in members:
            for k in range(4):
                p, q = refblocks[bi].edge(a, k)
                lens.append(_edge_len(geo["points"], p, q))
        lmin = min(lens)
        if r == conflict_root and len(members) >= 3 and rs.chance(0.35):
            # two contiguous camps: every member is chopped, the first k (in creation order, which is
            # path order for path topologies) with one count, the others with another
            ordered = sorted(members)
            k = rs.randint(1, len(ordered) - 1)
            n1 = rs.randint(2, 7)
            n2 = n1 + rs.pick([1, 2])
            for idx, (bi, a, par) in enumerate(ordered):
                chops.append({"block": refblocks[bi].name, "axis": a, "sections": [_explicit_chop(rs, n1 if idx < k else n2, lmin, plain=True)]})
            meta["adjacent_conflict"] = 1
            continue
        if r == conflict_root:
            # two sources, different explicit counts
            first = rs.pick(members)
            partners = [m for m in members if m != first]
            adjacent = [m for m in partners if _share_family_edge(refblocks, first, m)]
            if adjacent and rs.chance(0.6):
                second = rs.pick(adjacent)
                meta["adjacent_conflict"] = 1
            else:
                second = rs.pick(partners)
                if _share_family_edge(refblocks, first, second):
                    meta["adjacent_conflict"] = 1
            n1 = rs.randint(2, 7)
            n2 = n1 + rs.pick([1, 2, -1]) if n1 > 2 else n1 + rs.randint(1, 3)
            for (bi, a, par), n in ((first, n1), (second, n2)):
                chops.append({"block": refblocks[bi].name, "axis": a, "sections": [_explicit_chop(rs, n, lmin, plain=rs.chance(0.5))]})
            # often more sources that agree with the first one: the odd one out may then be
            # surrounded by blocks that agree among themselves
            rest = [m for m in partners if m != second]
            nmore = rs.weighted([(0, 3), (1, 3), (2, 2), (3, 2), (4, 1)])
            two_camps = rs.chance(0.4)  # the other count may have supporters too
            for (bi, a, par) in rs.shuffled(rest)[:nmore]:
                n_here = n2 if (two_camps and rs.chance(0.5)) else n1
                chops.append({"block": refblocks[bi].name, "axis": a, "sections": [_explicit_chop(rs, n_here, lmin, plain=True)]})
            continue
        nsrc = 1
        if len(members) >= 2 and rs.chance(p_multi):
            nsrc = min(len(members), rs.pick([2, 2, 3]))
        srcs = rs.shuffled(members)[:nsrc]
        if nsrc == 1:
            bi, a, par = srcs[0]
            avg = sum(_edge_len(geo["points"], *refblocks[bi].edge(a, k)) for k in range(4)) / 4
            kind = rs.weighted([("explicit", 0.5), ("size", 0.3), ("multi", 0.2)])
            if kind == "explicit":
                secs = [_explicit_chop(rs, rs.randint(1, 8), lmin)]
            elif kind == "size":
                secs = [_size_chop(rs, avg, lmin)]
                meta["size_based"] += 1
            else:
                secs = _multi_chop(rs, lmin)
                meta["multi_section"] += 1
            if any(s.get("preserve") in ("start_size", "end_size") for s in secs):
                meta["preserve"] += 1
            chops.append({"block": refblocks[bi].name, "axis": a, "sections": secs})
        elif rs.sub("ratio_twins", r).chance(0.12):
            # several sources with two sections each: the same counts, no expansion, but the sections split the
            # edge differently (blocks between them take each edge from whichever source owns it)
            meta["multi_source"] += 1
            meta["diff_expansion"] += 1
            meta["multi_section"] += 1
            tr = rs.sub("ratio_twins", r, "v")
            n1, n2 = tr.randint(2, 4), tr.randint(2, 4)
            for (bi, a, par) in srcs:
                f1 = tr.pick([0.3, 0.4, 0.5, 0.6, 0.7])
                secs = [{"count": n1, "length_ratio": f1}, {"count": n2, "length_ratio": round(1 - f1, 6)}]
                if par:
                    secs = [{"count": n2, "length_ratio": round(1 - f1, 6)}, {"count": n1, "length_ratio": f1}]
                chops.append({"block": refblocks[bi].name, "axis": a, "sections": secs})
        else:
            meta["multi_source"] += 1
            n = rs.randint(2, 8)
            same = rs.chance(opts.get("p_same_expansion", 0.6))
            base = _explicit_chop(rs, n, lmin, allow_size=False, allow_preserve=False)
            if not same:
                meta["diff_expansion"] += 1
            for (bi, a, par) in srcs:
                sec = dict(base) if same else _explicit_chop(rs, n, lmin, allow_size=False, allow_preserve=False)
                if par:
                    # the same physical grading, expressed in this member's own sense
                    sec = invert_chop(sec) if same else sec
                chops.append({"block": refblocks[bi].name, "axis": a, "sections": [sec]})
    # clause (e): a chop that cannot be realised (first cell longer than the edge it is placed on)
    if category == "ok" and chops and rs.chance(opts.get("p_infeasible", 0.0)):
        ch = rs.pick(chops)
        bi = [b.name for b in refblocks].index(ch["block"])
        lmax = max(_edge_len(geo["points"], *refblocks[bi].edge(ch["axis"], k)) for k in range(4))
        ch["sections"] = [{"count": rs.randint(2, 5), "start_size": round(lmax * rs.uniform(1.5, 3.0), 6)}]
        meta["infeasible"] = 1
    geo = dict(geo)
    geo["chops"] = chops
    geo["meta"] = meta
    if category == "undefined" and skip:
        # what the user may add later, on the assembled mesh, after the first write failed
        late = []
        for r in sorted(skip):
            bi, a, _ = rs.sub("late", r).pick(sorted(fams[r]))
            late.append({"block": refblocks[bi].name, "axis": a, "sections": [{"count": rs.sub("late", r, "n").randint(2, 6)}]})
        geo["late_chops"] = late
    return geo


def _share_family_edge(refblocks, m1, m2) -> bool:
    b1, a1, _ = m1
    b2, a2, _ = m2
    e1 = {frozenset(refblocks[b1].edge(a1, k)) for k in range(4)}
    e2 = {frozenset(refblocks[b2].edge(a2, k)) for k in range(4)}
    return bool(e1 & e2)


def _explicit_chop(rs: Stream, n: int, lmin: float, plain: bool = False, allow_size: bool = True, allow_preserve: bool = True) -> Dict[str, Any]:
    if plain or n == 1:
        return {"count": n}
    kinds = [("plain", 2), ("c2c", 3), ("total", 2)]
    if allow_size:
        kinds += [("start", 2), ("end", 2)]
    k = rs.weighted(kinds)
    out: Dict[str, Any] = {"count": n}
    special = rs.chance(0.15)  # values a person would type: exactly 1, 2, 0.5; a size that divides the edge evenly
    if k == "c2c":
        out["c2c_expansion"] = rs.pick([1.0, 1.2, 0.8, 1]) if special else round(rs.uniform(0.8, 1.25), 4)
    elif k == "total":
        out["total_expansion"] = rs.pick([1.0, 2.0, 0.5, 1, 4]) if special else round(rs.uniform(0.3, 3.0), 4)
    elif k in ("start", "end"):
        u = rs.uniform(0.4, 0.9) if rs.chance(0.5) else rs.uniform(1.1, 1.6)
        out[k + "_size"] = lmin / n if special else round(lmin / n * u, 6)
    if k != "plain" and allow_preserve and rs.chance(0.45):
        out["preserve"] = rs.pick(["start_size", "end_size"])
    return out


def _size_chop(rs: Stream, avg: float, lmin: float) -> Dict[str, Any]:
    k = rs.pick(["start_c2c", "end_c2c", "start_end", "start_total"])
    s = round(min(avg, lmin) / rs.uniform(3, 9), 6)
    out: Dict[str, Any] = {}
    if k == "start_c2c":
        out = {"start_size": s, "c2c_expansion": round(rs.uniform(1.0, 1.2), 4)}
    elif k == "end_c2c":
        out = {"end_size": s, "c2c_expansion": round(rs.uniform(0.85, 1.0), 4)}
    elif k == "start_end":
        out = {"start_size": s, "end_size": round(s * rs.uniform(0.5, 2.0), 6)}
    else:
        out = {"start_size": s, "total_expansion": round(rs.uniform(0.5, 2.5), 4)}
    if rs.chance(0.5):
        out["preserve"] = rs.pick(["start_size", "end_size"])
    return out


def _multi_chop(rs: Stream, lmin: float) -> List[Dict[str, Any]]:
    if rs.chance(0.15):
        # a saw-tooth: the same graded division repeated
        k = rs.pick([2, 2, 3])
        sec = {"count": rs.randint(2, 5), "total_expansion": rs.pick([4, 0.25, 2.0, round(rs.uniform(1.5, 3), 3)]), "length_ratio": round(1.0 / k, 6) if k != 3 else 0.333333}
        if k == 3:
            return [dict(sec, length_ratio=0.25), dict(sec, length_ratio=0.25), dict(sec, length_ratio=0.25), dict(sec, length_ratio=0.25)]
        return [dict(sec) for _ in range(k)]
    fr = rs.pick([[0.5, 0.5], [0.3, 0.7], [0.25, 0.5, 0.25], [0.2, 0.3, 0.5]])
    out = []
    for f in fr:
        n = rs.randint(1, 5)
        sec = _explicit_chop(rs, n, lmin * f, allow_size=rs.chance(0.5))
        sec["length_ratio"] = f
        out.append(sec)
    return out


def _perp(axis):
    ref = [1.0, 0.0, 0.0] if abs(axis[0]) < 0.8 else [0.0, 1.0, 0.0]
    v = [axis[1] * ref[2] - axis[2] * ref[1], axis[2] * ref[0] - axis[0] * ref[2], axis[0] * ref[1] - axis[1] * ref[0]]
    n = math.sqrt(sum(x * x for x in v))
    return [x / n for x in v]


def gen_shape_program(rs: Stream, cfg_seed: int, kinds=None) -> Dict[str, Any]:
    """Realistic curved topologies built by the library's own shapes; the reference model
    judges them from the operations' points and chops read before assembly."""
    kind = rs.pick(kinds or ["cylinder", "frustum", "ring", "hemisphere", "cyl_cyl", "cyl_ring", "cyl_hemi", "cyl_frustum", "ring_ring", "tjoint", "ljoint", "stack", "tstack", "tstack", "tstack"])
    o = [round(rs.uniform(-3, 3), 3) for _ in range(3)]
    ax = [rs.uniform(-1, 1) for _ in range(3)]
    n = math.sqrt(sum(x * x for x in ax)) or 1.0
    ax = [x / n for x in ax] if rs.chance(0.6) else [0.0, 0.0, 1.0]
    L = rs.uniform(0.8, 2.5)
    R = rs.uniform(0.5, 1.5)
    pr = _perp(ax)
    p2 = [o[i] + L * ax[i] for i in range(3)]
    rp = [o[i] + R * pr[i] for i in range(3)]
    ops: List[Dict[str, Any]] = []
    shapes: List[str] = ["s0"]
    if kind in ("cylinder", "cyl_cyl", "cyl_ring", "cyl_hemi", "cyl_frustum"):
        ops.append({"op": "shape", "name": "s0", "kind": "cylinder", "args": {"p1": o, "p2": p2, "r": rp}})
    elif kind == "frustum":
        ops.append({"op": "shape", "name": "s0", "kind": "frustum", "args": {"p1": o, "p2": p2, "r1": rp, "r2": R * rs.uniform(0.4, 0.9)}})
    elif kind in ("ring", "ring_ring"):
        ops.append({"op": "shape", "name": "s0", "kind": "ring", "args": {"p1": o, "p2": p2, "r_out": rp, "r_in": R * rs.uniform(0.3, 0.7), "n": rs.pick([4, 5, 8])}})
    elif kind == "hemisphere":
        ops.append({"op": "shape", "name": "s0", "kind": "hemisphere", "args": {"c": o, "r": rp, "n": ax}})
    elif kind in ("tjoint", "ljoint"):
        ops.append({"op": "shape", "name": "s0", "kind": kind, "args": {"start": o, "center": [o[i] + 2.5 * R * ax[i] for i in range(3)], "r": [o[i] + 0.5 * R * pr[i] for i in range(3)]}})
    elif kind == "tstack":
        # tiers of different height (each tier is the previous one scaled about the origin), chopped
        # along the stack by Stack.chop - by cell size or by count - and in-plane on the first tier
        n1, n2, rep = rs.randint(1, 3), rs.randint(1, 2), rs.randint(2, 3)
        sc_ = round(rs.uniform(1.3, 2.2), 2)
        ops.append({"op": "shape", "name": "s0", "kind": "tstack", "args": {"p1": [1, 1, 0], "p2": [1 + n1 * rs.uniform(0.6, 1.2), 1 + n2 * rs.uniform(0.6, 1.2), 0],
                                                                                  "n1": n1, "n2": n2, "lift": 1.0, "scale": sc_, "origin": [0, 0, 0], "repeats": rep}})
        for j in range(n1 * n2):
            ops.append({"op": "sub_chop", "target": "s0", "index": j, "axis": 0, "args": {"count": 4}})
            ops.append({"op": "sub_chop", "target": "s0", "index": j, "axis": 1, "args": {"count": 3}})
        args = rs.pick([{"start_size": round(rs.uniform(0.1, 0.3), 3)}, {"count": rs.randint(2, 6)}, {"end_size": round(rs.uniform(0.1, 0.3), 3)},
                        {"start_size": round(rs.uniform(0.1, 0.2), 3), "c2c_expansion": 1.1},
                        {"count": rs.randint(3, 8), "c2c_expansion": rs.pick([1.1, 1.2, 0.9]), "preserve": rs.pick(["start_size", "end_size"])},
                        {"count": rs.randint(3, 8), "total_expansion": rs.pick([2.0, 0.5, 3.0]), "preserve": rs.pick(["start_size", "end_size"])}])
        ops.append({"op": "stack_chop", "target": "s0", "args": args})
        ops.append({"op": "add", "target": "s0"})
        ops.append({"op": "assemble"})
        ops.append({"op": "write", "path": DICT_PATH, "debug": VTK_PATH})
        return {"points": {}, "ops": ops, "meta": {"shapes": kind, "category": "tstack", "cfg_seed": cfg_seed}}
    elif kind == "stack":
        n1, n2, rep = rs.randint(1, 3), rs.randint(1, 2), rs.randint(1, 3)
        ops.append({"op": "shape", "name": "s0", "kind": "stack", "args": {"p1": [o[0], o[1], 0], "p2": [o[0] + 1 + R, o[1] + L, 0], "n1": n1, "n2": n2, "amount": round(L, 3), "repeats": rep}})
        # chops on a random subset of the stack's operations (the reference decides what that amounts to)
        cx, cy, cz = rs.randint(2, 5), rs.randint(2, 5), rs.randint(2, 5)
        for j in range(n1 * n2 * rep):
            for a, c in ((0, cx), (1, cy), (2, cz)):
                if rs.chance(0.7):
                    ops.append({"op": "sub_chop", "target": "s0", "index": j, "axis": a, "args": {"count": c if rs.chance(0.93) else c + 1}})
        cs = Stream(cfg_seed, "config", "shapes")
        ops.append({"op": "add", "target": "s0"})
        ops.append({"op": "assemble"})
        ops.append({"op": "write", "path": DICT_PATH, "debug": VTK_PATH})
        return {"points": {}, "ops": ops, "meta": {"shapes": kind, "category": "stack", "cfg_seed": cfg_seed}}
    if kind == "cyl_cyl":
        ops.append({"op": "chain", "name": "s1", "source": "s0", "kind": "cylinder", "args": {"length": rs.uniform(0.5, 2), "start_face": rs.chance(0.3)}})
        shapes.append("s1")
    elif kind == "cyl_ring":
        ops.append({"op": "chain", "name": "s1", "source": "s0", "kind": "ring_expand", "args": {"thickness": rs.uniform(0.2, 0.8)}})
        shapes.append("s1")
    elif kind == "cyl_hemi":
        ops.append({"op": "chain", "name": "s1", "source": "s0", "kind": "hemisphere", "args": {"start_face": rs.chance(0.3)}})
        shapes.append("s1")
    elif kind == "cyl_frustum":
        ops.append({"op": "chain", "name": "s1", "source": "s0", "kind": "frustum", "args": {"length": rs.uniform(0.5, 1.5), "r2": R * rs.uniform(0.4, 0.9)}})
        shapes.append("s1")
    elif kind == "ring_ring":
        ops.append({"op": "chain", "name": "s1", "source": "s0", "kind": "ring_chain", "args": {"length": rs.uniform(0.5, 1.5)}})
        shapes.append("s1")
    base = {w: rs.randint(2, 6) for w in ("axial", "radial", "tangential")}
    mode = rs.weighted([("complete", 5), ("omit", 3), ("conflict", 2)])
    for si, sn in enumerate(shapes):
        for w in ("axial", "radial", "tangential"):
            c = base[w]
            if si == 1:
                # the second shape shares some families with the first: repeat, omit or contradict
                choice = rs.weighted([("repeat", 3), ("omit", 4), ("other", 2 if mode == "conflict" else 0)])
                if w == "axial":
                    choice = "repeat" if choice == "omit" and mode != "omit" else choice
                if choice == "omit":
                    continue
                if choice == "other":
                    c = c + rs.pick([1, 2])
            elif mode == "omit" and rs.chance(0.35):
                continue
            args: Dict[str, Any] = {"count": c}
            if rs.chance(0.3):
                args["c2c_expansion"] = round(rs.uniform(0.9, 1.15), 3)
            ops.append({"op": "shape_chop", "target": sn, "which": w, "args": args})
    cs = Stream(cfg_seed, "config", "shapes")
    for sn in cs.shuffled(shapes):
        ops.append({"op": "add", "target": sn})
    ops.append({"op": "assemble"})
    ops.append({"op": "write", "path": DICT_PATH, "debug": VTK_PATH})
    return {"points": {}, "ops": ops, "meta": {"shapes": kind, "category": mode, "cfg_seed": cfg_seed}}


def add_curved(rs: Stream, geo: Dict[str, Any], opts: Dict[str, Any]) -> Dict[str, Any]:
    """Curved edges (arcs / polylines), attached to the physical edge so every block that
    owns it declares the same curve (as a careful user would)."""
    p = opts.get("p_curved", 0.0)
    if p <= 0:
        return geo
    geo = dict(geo)
    curved = {}
    pts = geo["points"]
    seen = set()
    closing_canon = set()
    for b in geo["blocks"]:
        for (u, v) in CLOSING:
            closing_canon.add(tuple(sorted((b["corners"][u], b["corners"][v]))))
    for b in geo["blocks"]:
        for a in range(3):
            for (u, v) in hexref.AXIS_EDGES[a]:
                key = tuple(sorted((b["corners"][u], b["corners"][v])))
                if key in seen:
                    continue
                seen.add(key)
                er = Stream(rs.key, "curve", key)
                if not er.chance(p):
                    continue
                P, Q = pts[key[0]], pts[key[1]]
                mid = [(x + y) / 2 for x, y in zip(P, Q)]
                L = models.dist(P, Q)
                d = [y - x for x, y in zip(P, Q)]
                # some vector not parallel to d
                ref = [1.0, 0.3, 0.2] if abs(d[0]) < 0.9 * L else [0.2, 1.0, 0.3]
                n = [d[1] * ref[2] - d[2] * ref[1], d[2] * ref[0] - d[0] * ref[2], d[0] * ref[1] - d[1] * ref[0]]
                nn = math.sqrt(sum(x * x for x in n))
                n = [x / nn for x in n]
                bulge = er.uniform(0.08, 0.3) * L * (1 if er.chance(0.5) else -1)
                if er.chance(0.7) or key in closing_canon:
                    curved[key[0] + "|" + key[1]] = {"kind": "arc", "data": [round(m + bulge * x, 6) for m, x in zip(mid, n)]}
                else:
                    q1 = [P[i] + d[i] * 0.3 + n[i] * bulge for i in range(3)]
                    q2 = [P[i] + d[i] * 0.7 + n[i] * bulge for i in range(3)]
                    curved[key[0] + "|" + key[1]] = {"kind": "polyline", "data": [[round(x, 6) for x in q1], [round(x, 6) for x in q2]]}
    geo["curved"] = curved
    return geo


# ---------------------------------------------------------------------------------------
# configuration: numbering + add order  ->  explicit program
# ---------------------------------------------------------------------------------------

def make_program(geo: Dict[str, Any], cfg_seed: int, identity: bool = False) -> Dict[str, Any]:
    cs = Stream(cfg_seed, "config")
    names = [b["name"] for b in geo["blocks"]]
    order = list(names) if identity else cs.shuffled(names)
    rots = {}
    by_name0 = {b["name"]: b for b in geo["blocks"]}
    poly = {k for k, cv in geo["curved"].items() if cv["kind"] == "polyline"}

    def rot_ok(nme, rot):
        if not poly:
            return True
        corners = hexref.renumber(by_name0[nme]["corners"], rot)
        for (u, v) in CLOSING:
            key = tuple(sorted((corners[u], corners[v])))
            if key[0] + "|" + key[1] in poly:
                return False
        return True

    for nme in names:
        rot = hexref.IDENTITY if (identity or cs.chance(0.35)) else cs.randrange(24)
        tries = 0
        while not rot_ok(nme, rot) and tries < 40:
            rot = cs.randrange(24)
            tries += 1
        if not rot_ok(nme, rot):
            rot = hexref.IDENTITY
        rots[nme] = rot
    ops: List[Dict[str, Any]] = []
    by_name = {b["name"]: b for b in geo["blocks"]}
    # a curve is declared by every block that owns the edge - or, for some edges, only by the owner
    # that is added to the mesh first: the later ones then take it over from the edge list
    rank = {nme: i for i, nme in enumerate(order)}
    first_owner: Dict[str, str] = {}
    for nme in names:
        c = by_name[nme]["corners"]
        for (u, v) in hexref.EDGES12:
            key = tuple(sorted((c[u], c[v])))
            k = key[0] + "|" + key[1]
            if k in geo["curved"] and (k not in first_owner or rank[nme] < rank[first_owner[k]]):
                first_owner[k] = nme
    only_first = {k for k in geo["curved"] if Stream(cfg_seed, "inherit", k).chance(0.35)}
    # ... or, for half of those, by any one of its owners: a block added before that owner has its edge there too
    owners: Dict[str, List[str]] = {}
    for nme in names:
        c = by_name[nme]["corners"]
        for (u, v) in hexref.EDGES12:
            key = tuple(sorted((c[u], c[v])))
            owners.setdefault(key[0] + "|" + key[1], []).append(nme)
    for k in sorted(only_first):
        ir = Stream(cfg_seed, "inherit", k, "who")
        if ir.chance(0.5):
            first_owner[k] = ir.pick(sorted(set(owners[k])))
    for nme in names:
        b = by_name[nme]
        corners = hexref.renumber(b["corners"], rots[nme])
        edges = []
        for slot, (c1, c2) in enumerate(_slots()):
            key = tuple(sorted((corners[c1], corners[c2])))
            cv = geo["curved"].get(key[0] + "|" + key[1])
            if cv is None:
                continue
            if key[0] + "|" + key[1] in only_first and first_owner.get(key[0] + "|" + key[1]) != nme:
                continue
            if cv["kind"] == "arc":
                edges.append(dict({"c1": c1, "c2": c2, "kind": "arc", "data": cv["data"]}, **({"as": geo["arc_as"]} if geo.get("arc_as") else {})))
            else:
                data = cv["data"] if corners[c1] == key[0] else list(reversed(cv["data"]))
                edges.append({"c1": c1, "c2": c2, "kind": "polyline", "data": data})
        op = {"op": "hex", "name": nme, "corners": corners, "rot": rots[nme]}
        if edges:
            op["edges"] = edges
        ops.append(op)
    for ch in geo["chops"]:
        rot = rots[ch["block"]]
        axis, flipped = hexref.map_axis(rot, ch["axis"])
        secs = ch["sections"]
        if flipped:
            secs = [invert_chop(s) for s in reversed(secs)]
        for s in secs:
            ops.append({"op": "chop", "target": ch["block"], "axis": axis, "args": dict(s)})
    for (bname, side, pname) in geo.get("patches", []):
        ops.append({"op": "patch", "target": bname, "side": hexref.side_after(rots[bname], side), "name": pname})
    for (m_, s_) in geo.get("merges", []):
        ops.append({"op": "merge", "master": m_, "slave": s_})
    for nme in order:
        ops.append({"op": "add", "target": nme})
    ops.append({"op": "assemble"})
    if geo.get("retry"):
        # the script tries to write, survives whatever happens, and simply writes again (same Mesh,
        # nothing changed): the verdict of the second attempt must be the verdict of the model
        ops.append({"op": "try_write", "path": DICT_PATH, "debug": VTK_PATH})
        if geo.get("late_fix"):
            # ... after correcting the model in place: the missing chops go to the blocks of the assembled mesh
            for ch in geo["late_chops"]:
                axis, flipped = hexref.map_axis(rots[ch["block"]], ch["axis"])
                for s_ in ch["sections"]:
                    ops.append({"op": "chop", "target": ch["block"], "axis": axis, "args": dict(s_), "late": True})
    ops.append({"op": "write", "path": DICT_PATH, "debug": VTK_PATH})
    rewrite = geo.get("rewrite")
    if rewrite is not None:
        # the same assembled mesh is written again after some vertices were moved
        if not rewrite and geo.get("rewrite_remesh"):
            # ... by a second Mesh object that the same operations are added to
            ops.append({"op": "remesh"})
            ops.append({"op": "assemble"})
        for mv in rewrite:
            ops.append(dict({"op": "move_vertex", "d": mv["d"]}, **({"point": mv["point"]} if "point" in mv else {"index": mv["index"]})))
        ops.append({"op": "write", "path": DICT_PATH + ".second"})
        if rewrite and geo.get("rewrite_back"):
            # ... and a third time after the vertices were put back exactly where they had been
            ops.append({"op": "restore_vertices"})
            ops.append({"op": "write", "path": DICT_PATH + ".third"})
    return {"points": geo["points"], "ops": ops, "meta": dict(geo.get("meta", {}), cfg_seed=cfg_seed),
            "point_type": "list" if identity else cs.pick(["list", "list", "tuple", "array", "int_where_whole"])}


def _slots():
    """the 12 local edges in the sense the interpreter can set them"""
    return [(0, 1), (1, 2), (2, 3), (3, 0), (4, 5), (5, 6), (6, 7), (7, 4), (0, 4), (1, 5), (2, 6), (3, 7)]


def ref_assembly(program: Dict[str, Any]) -> Tuple[models.Assembly, List[str]]:
    """Reference topology of a hex-only program: non-deleted blocks in add order."""
    hexes = {}
    chops: Dict[str, Dict[int, List[Dict[str, Any]]]] = {}
    added: List[str] = []
    deleted = set()
    for op in program["ops"]:
        if op["op"] == "hex":
            hexes[op["name"]] = op
        elif op["op"] == "chop":
            chops.setdefault(op["target"], {0: [], 1: [], 2: []})[op["axis"]].append(op["args"])
        elif op["op"] == "add":
            added.append(op["target"])
        elif op["op"] == "delete":
            deleted.add(op["target"])
    names = [n for n in added if n not in deleted]
    slaves = {op["slave"] for op in program["ops"] if op["op"] == "merge"}
    if not slaves:
        blocks = [models.RefBlock(n, hexes[n]["corners"], chops.get(n)) for n in names]
        return models.Assembly(blocks), names
    # merged pairs: a corner on a slave patch gets its own vertex, so blocks on the two sides of a
    # merged interface are not connected there
    side_patch: Dict[str, Dict[str, str]] = {}
    for op in program["ops"]:
        if op["op"] == "patch":
            for sd in (op["side"] if isinstance(op["side"], list) else [op["side"]]):
                side_patch.setdefault(op["target"], {})[sd] = op["name"]
    blocks = []
    for n in names:
        corners = []
        for c in range(8):
            touching = {side_patch.get(n, {}).get(sd) for sd in hexref.SIDES if c in hexref.SIDE_CORNERS[sd]} - {None}
            corners.append((hexes[n]["corners"][c], tuple(sorted(touching & slaves))))
        blocks.append(models.RefBlock(n, corners, chops.get(n)))
    return models.Assembly(blocks), names


def scale_geo(geo: Dict[str, Any], s: float) -> Dict[str, Any]:
    """the same model in other units (a part a few tenths of a millimetre across, modelled in metres):
    points, curve data and prescribed cell sizes times s"""
    g = dict(geo)
    g["points"] = {k: [round(x * s, 12) for x in v] for k, v in geo["points"].items()}
    cv = {}
    for k, c in geo.get("curved", {}).items():
        c = dict(c)
        c["data"] = [round(x * s, 12) for x in c["data"]] if c["kind"] == "arc" else [[round(x * s, 12) for x in p] for p in c["data"]]
        cv[k] = c
    g["curved"] = cv
    chops = []
    for ch in geo["chops"]:
        secs = []
        for sc in ch["sections"]:
            sc = dict(sc)
            for key in ("start_size", "end_size"):
                if sc.get(key) is not None:
                    sc[key] = sc[key] * s
            secs.append(sc)
        chops.append(dict(ch, sections=secs))
    g["chops"] = chops
    g["meta"] = dict(geo.get("meta", {}), scale=s)
    return g


def edge_geometry_written(program: Dict[str, Any], parsed) -> Optional[Dict[frozenset, float]]:
    """Length of every physical edge as the written file describes it (what blockMesh will build):
    chord, unless the file's edges section has an arc or polyline between the two vertices."""
    vmap = map_vertices(parsed, program)
    inv = {v: k for k, v in vmap.items()}
    pts = program["points"]
    out: Dict[frozenset, float] = {}
    for op in program["ops"]:
        if op["op"] != "hex":
            continue
        c = op["corners"]
        for (u, v) in hexref.EDGES12:
            key = frozenset((c[u], c[v]))
            if key not in out and len(key) == 2:
                out[key] = models.dist(pts[c[u]], pts[c[v]])
    for e in parsed.edges:
        p, q = inv.get(e["v"][0]), inv.get(e["v"][1])
        if p is None or q is None:
            return None
        key = frozenset((p, q))
        if e["kind"] == "arc":
            out[key] = models.arc_length(pts[p], pts[q], e["point"])
        elif e["kind"] == "polyLine":
            out[key] = models.polyline_length(pts[p], pts[q], e["points"])
        else:
            return None
    return out


def edge_geometry(program: Dict[str, Any]) -> Dict[frozenset, float]:
    """Reference length of every physical edge (straight unless some block declares a curve)."""
    pts = program["points"]
    out: Dict[frozenset, float] = {}
    for op in program["ops"]:
        if op["op"] != "hex":
            continue
        c = op["corners"]
        for (u, v) in hexref.EDGES12:
            key = frozenset((c[u], c[v]))
            if key not in out and len(key) == 2:
                out[key] = models.dist(pts[c[u]], pts[c[v]])
        for e in op.get("edges", []):
            key = frozenset((c[e["c1"]], c[e["c2"]]))
            P, Q = pts[c[e["c1"]]], pts[c[e["c2"]]]
            if e["kind"] == "arc":
                out[key] = models.arc_length(P, Q, e["data"])
            elif e["kind"] == "polyline":
                out[key] = models.polyline_length(P, Q, e["data"])
    return out


# ---------------------------------------------------------------------------------------
# one simulated execution
# ---------------------------------------------------------------------------------------


class RunResult:
    def __init__(self) -> None:
        self.outcome = "?"  # ok | exc:<Type> | livelock
        self.exc_msg = ""
        self.files: Dict[str, str] = {}
        self.fs_ops: List[Tuple] = []
        self.copy_calls = 0
        self.budget = 0
        self.probes: Dict[str, int] = {}
        self.decisions = 0
        self.consulted: Dict[str, List[str]] = {}
        self.log_digest = ""
        self.block_names: List[str] = []
        self.live: Optional[Dict[str, Any]] = None  # snapshot of counts from live objects
        self.writes: List[Tuple[str, Optional[Dict[str, Any]]]] = []  # (dictionary text, live wire counts) after every successful write
        self.snapshot: Optional[List[Tuple[str, List[List[float]], Dict[int, List[Dict[str, Any]]]]]] = None


def label_mesh(world: seams.World, mesh, names: List[str]) -> None:
    try:
        _label_mesh(world, mesh, names)
    except AttributeError:
        pass  # labels only make schedules readable; unlabelled sets fall back to ordinals


def _label_mesh(world: seams.World, mesh, names: List[str]) -> None:
    for i, block in enumerate(mesh.blocks):
        nme = names[i] if i < len(names) else f"blk{i}"
        for axis in block.axes:
            chopped = bool(axis.wires.chops)
            world.label(axis, f"{nme}.a{axis.index}", block=i, chopped=chopped)
            world.label(axis.neighbours, f"{nme}.a{axis.index}.nb")
            for wire in axis.wires.wires:
                wl = f"{nme}.w{wire.corners[0]}-{wire.corners[1]}"
                world.label(wire, wl, block=i, chopped=chopped)
                world.label(wire.coincidents, wl + ".co")


def run_once(program: Dict[str, Any], sched: Dict[str, Any], pre_files: Optional[Dict[str, str]] = None) -> RunResult:
    import classy_blocks  # noqa: F401
    from classy_blocks.base import exceptions as cbx
    from classy_blocks.items.block import Block
    from classy_blocks.items.wires.axis import Axis

    seams.install_standard()
    res = RunResult()
    world = seams.World(sched_seed=sched.get("seed", 0), mode=sched.get("mode", "uniform"), explicit=sched.get("explicit"))
    if pre_files:
        world.fs.files.update(pre_files)
    n_blocks = sum(1 for op in program["ops"] if op["op"] == "add")
    res.budget = 8 * n_blocks * n_blocks + 16
    probes = {"copy_axis_calls": 0, "multi_candidates": 0, "chopless_defined_nb": 0, "chopless_first": 0, "copied": 0}

    # observation probes: if a refactoring renames these methods the probes are simply not
    # installed (reach counters stay 0; a livelock is then caught by the watchdog only)
    orig_block_copy = getattr(Block, "copy_grading", None)
    orig_axis_copy = getattr(Axis, "copy_grading", None)

    def block_copy(self):
        res.copy_calls += 1
        if res.copy_calls > res.budget:
            raise seams.SimLivelock(f"copy_grading called {res.copy_calls} times for {len(it.mesh.blocks)} blocks (budget {res.budget})")
        return orig_block_copy(self)

    def axis_copy(self):
        probes["copy_axis_calls"] += 1
        if not self.is_defined:
            try:
                defined = [nb for nb in list(self.neighbours) if nb.is_defined]
            except Exception:
                defined = []
            if len(defined) >= 2:
                probes["multi_candidates"] += 1
            if any(not nb.wires.chops for nb in defined):
                probes["chopless_defined_nb"] += 1
                if defined and not defined[0].wires.chops:
                    probes["chopless_first"] += 1
        r = orig_axis_copy(self)
        if r:
            probes["copied"] += 1
        return r

    undo = []
    if orig_block_copy is not None:
        undo.append(seams.patch_attr(Block, "copy_grading", block_copy))
    if orig_axis_copy is not None:
        undo.append(seams.patch_attr(Axis, "copy_grading", axis_copy))
    it = Interp(program)

    def before(i, op):
        if op["op"] == "assemble" and program.get("meta", {}).get("shapes"):
            res.snapshot = snapshot_ops(it)

    def after(i, op):
        if op["op"] == "write":
            try:
                live_now = snapshot_live(it.mesh)
            except Exception as e:  # observation only
                live_now = {"error": repr(e)}
            res.writes.append((world.fs.files.get(op["path"]), live_now))
        if op["op"] == "assemble":
            names = [n for n in it.added]
            if res.snapshot is not None:
                names = [x[0] for x in res.snapshot]
            res.block_names = names
            nb = len(it.mesh.blocks)
            res.budget = 8 * nb * nb + 16
            label_mesh(world, it.mesh, names)

    it.hooks["before"] = before
    it.hooks["after"] = after
    try:
        with seams.run_world(world):
            try:
                it.run()
                res.outcome = "ok"
            except seams.SimLivelock as e:
                res.outcome = "livelock"
                res.exc_msg = str(e)
            except (cbx.UndefinedGradingsError, cbx.InconsistentGradingsError) as e:
                res.outcome = "exc:" + type(e).__name__
                res.exc_msg = str(e)[:300]
            except Exception as e:  # any other exception type is an outcome too
                res.outcome = "exc:" + type(e).__name__
                res.exc_msg = str(e)[:300]
            if res.outcome == "ok":
                try:
                    res.live = snapshot_live(it.mesh)
                except Exception as e:
                    res.live = {"error": repr(e)}
    finally:
        for u in undo:
            u()
    res.files = dict(world.fs.files)
    res.fs_ops = list(world.fs.ops)
    res.probes = probes
    res.decisions = world.decisions
    res.consulted = dict(world.consulted)
    world.event("outcome", res.outcome, {k: digest(v) for k, v in sorted(res.files.items())})
    res.log_digest = digest(world.log)
    return res


def snapshot_ops(it: Interp):
    """Input-side read for shape-built programs: every non-deleted operation (flattened, in
    add order) with its eight points and the chops placed on it, before assembly."""
    import dataclasses

    out = []
    deleted = it.mesh.deleted
    for nme in it.added:
        ent = it.env[nme]
        opers = [ent] if not hasattr(ent, "operations") else list(ent.operations)
        for j, o in enumerate(opers):
            if o in deleted:
                continue
            chops = {}
            for a in (0, 1, 2):
                lst = []
                for ch in o.chops[a]:
                    d = {k: v for k, v in dataclasses.asdict(ch).items() if v is not None and k != "results"}
                    lst.append(d)
                chops[a] = lst
            label = nme if len(opers) == 1 and not hasattr(ent, "operations") else f"{nme}[{j}]"
            out.append((label, [[float(x) for x in p] for p in o.point_array], chops))
    return out


def assembly_from_snapshot(snap) -> Tuple[models.Assembly, List[str]]:
    allpos = []
    for (_, pts, _) in snap:
        allpos += pts
    ids = models.cluster_points(allpos, tol=1e-6)
    blocks = []
    k = 0
    for (label, pts, chops) in snap:
        blocks.append(models.RefBlock(label, ids[k:k + 8], chops))
        k += 8
    return models.Assembly(blocks), [b.name for b in blocks]


def hex_program_from_snapshot(snap) -> Dict[str, Any]:
    """the hex-only program equivalent to a shape-built assembly whose edges are all straight (ids from the same
    clustering as assembly_from_snapshot): lets the cell-size oracle judge stacks, shells, connectors, ..."""
    allpos = []
    for (_, pts, _) in snap:
        allpos += pts
    ids = models.cluster_points(allpos, tol=1e-6)
    points: Dict[Any, List[float]] = {}
    for i, pos in zip(ids, allpos):
        points.setdefault(i, list(pos))
    ops = []
    for k, (label, _, _) in enumerate(snap):
        ops.append({"op": "hex", "name": label, "corners": ids[8 * k:8 * k + 8]})
    return {"points": points, "ops": ops, "meta": {}}


def snapshot_live(mesh) -> Dict[str, Any]:
    """Observation point named by C01: Wire.grading.count after Mesh.grade()."""
    out = []
    for block in mesh.blocks:
        per_axis = []
        for axis in block.axes:
            per_axis.append([w.grading.count for w in axis.wires.wires])
        out.append(per_axis)
    return {"wire_counts": out}


# ---------------------------------------------------------------------------------------
# oracles
# ---------------------------------------------------------------------------------------


class Violation:
    def __init__(self, prop: str, klass: str, detail: str, key: Optional[str] = None):
        self.prop, self.klass, self.detail, self.key = prop, klass, detail, key or klass

    def to_json(self):
        return {"property": self.prop, "class": self.klass, "detail": self.detail, "key": self.key}


def parse_result(res: RunResult):
    text = res.files.get(DICT_PATH)
    if text is None:
        return None
    return foam.parse_blockmeshdict(text)


def map_vertices(parsed, program) -> Optional[Dict[str, int]]:
    """point id -> vertex index by position (8 decimals), for lattice programs"""
    pos = {}
    for i, (xyz, _) in enumerate(parsed.vertices):
        pos[tuple(round(x, 6) for x in xyz)] = i
    out = {}
    for pid, p in program["points"].items():
        k = tuple(round(x, 6) for x in p)
        if k in pos:
            out[pid] = pos[k]
    return out


def oracle_counts(program, asm: models.Assembly, names, verdict: models.FamilyVerdict, res: RunResult, parsed) -> List[Violation]:
    """C01 clauses + the count part of C02."""
    out: List[Violation] = []
    klass = verdict.klass
    if res.outcome == "livelock":
        return out  # C02's business
    unreal = res.outcome == "exc:ValueError" and _may_be_unrealisable(program)
    if klass == "conflict":
        if res.outcome != "exc:InconsistentGradingsError" and not unreal:
            what = [f"{n}.a{a}={c}" for (_, known) in verdict.conflicts for (n, a, c) in known]
            adj = program.get("meta", {}).get("adjacent_conflict")
            out.append(Violation("C01", "conflict-not-rejected",
                                 f"chops demand different counts on one family ({', '.join(what)}) but outcome is {res.outcome}",
                                 key="conflict-not-rejected:" + ("adjacent" if adj else "separated")))
        return out
    if klass == "conflict+undefined":
        if res.outcome not in ("exc:InconsistentGradingsError", "exc:UndefinedGradingsError") and not unreal:
            out.append(Violation("C01", "conflict-not-rejected", f"conflicting and missing chops but outcome is {res.outcome}"))
        return out
    if res.outcome != "ok" or parsed is None:
        return out
    # written file: shared edges agree, 4 parallel edges carry the block's count
    if len(parsed.blocks) != len(names):
        out.append(Violation("C01", "block-count", f"{len(parsed.blocks)} hex entries for {len(names)} blocks"))
        return out
    edge_counts: Dict[frozenset, List[Tuple[str, int, int]]] = {}
    for bi, blk in enumerate(parsed.blocks):
        for a in range(3):
            for (u, v) in hexref.AXIS_EDGES[a]:
                key = frozenset((blk["idx"][u], blk["idx"][v]))
                if len(key) == 2:
                    edge_counts.setdefault(key, []).append((names[bi], a, blk["counts"][a]))
            # sections of every grading entry must sum to the count
            for k in range(4):
                spec = blk["gradings"][4 * a + k]
                if len(spec) > 1 and models.section_cells(spec, blk["counts"][a]) is None:
                    out.append(Violation("C01", "sections-do-not-sum",
                                         f"{names[bi]} axis {a} edge {k}: sections {spec} do not sum to {blk['counts'][a]}"))
    for key, users in edge_counts.items():
        if len({c for (_, _, c) in users}) > 1:
            out.append(Violation("C01", "shared-edge-count-mismatch", f"edge {sorted(key)}: {users}"))
            break
    # live observation point: Wire.grading.count after grade()
    if res.live and "wire_counts" in res.live:
        for bi, per_axis in enumerate(res.live["wire_counts"]):
            for a, wc in enumerate(per_axis):
                if len(set(wc)) != 1 or wc[0] != parsed.blocks[bi]["counts"][a]:
                    out.append(Violation("C01", "parallel-edges-count",
                                         f"{names[bi]} axis {a}: wires carry {wc}, written {parsed.blocks[bi]['counts'][a]}"))
    # family expectation (reference model): every member carries the family count
    fams = asm.families()
    for root, members in fams.items():
        exp = verdict.expected.get(root)
        got = {(names[bi], a): parsed.blocks[bi]["counts"][a] for (bi, a, _) in members}
        if exp is None:
            srcs = verdict.sources.get(root, [])
            if srcs:
                exp = parsed.blocks[srcs[0][0]]["counts"][srcs[0][1]]
        if exp is not None and any(c != exp for c in got.values()):
            out.append(Violation("C02", "family-count", f"family expected {exp}, members carry {got}"))
    return out


def oracle_outcome(program, verdict: models.FamilyVerdict, res: RunResult, pre_files) -> List[Violation]:
    """C02: liveness, completeness, under-specified => error with untouched file."""
    out: List[Violation] = []
    klass = verdict.klass
    meta = program.get("meta", {})
    if res.outcome == "livelock":
        out.append(Violation("C02", "livelock", res.exc_msg, key="livelock"))
        return out
    if res.writes and res.outcome != "ok":
        # the first write succeeded; a failing second write is judged by the second-write oracles
        return out if not [op for op in res.fs_ops if len(op) > 1 and op[1] == DICT_PATH + ".second"] else out + [
            Violation("C02", "partial-dictionary", f"second write ended {res.outcome} but its path saw file operations")]
    if meta.get("infeasible"):
        if not res.outcome.startswith("exc:"):
            out.append(Violation("C02", "unrealisable-chop-accepted", f"a first cell longer than its edge was asked for, outcome is {res.outcome}"))
    elif klass == "ok":
        if res.outcome != "ok":
            if verdict.unknown_count_multi and res.outcome == "exc:InconsistentGradingsError":
                return out
            if res.outcome == "exc:ValueError" and _may_be_unrealisable(program):
                # clause (e): a preserved first/last cell size that does not fit on some
                # propagated edge must surface as an exception (file system untouched,
                # checked below); feasibility of *derived* sizes is C03's arithmetic
                pass
            else:
                out.append(Violation("C02", "well-posed-not-written", f"every family has a chop, no conflict, but outcome is {res.outcome}: {res.exc_msg}"))
    elif klass == "undefined":
        if res.outcome != "exc:UndefinedGradingsError" and not (res.outcome == "exc:ValueError" and _may_be_unrealisable(program)):
            out.append(Violation("C02", "undefined-not-rejected", f"a family has no chop but outcome is {res.outcome} {res.exc_msg}"))
    if res.outcome != "ok":
        # the write that failed: the first one, or the second one (which goes to its own path)
        failed_path = DICT_PATH if not res.writes else DICT_PATH + ".second"
        ops = [op for op in res.fs_ops if len(op) > 1 and op[1] == failed_path]
        if ops:
            out.append(Violation("C02", "partial-dictionary", f"outcome {res.outcome} but the dictionary path saw {ops[:3]}"))
        if pre_files and not res.writes and res.files.get(DICT_PATH) != pre_files.get(DICT_PATH):
            out.append(Violation("C02", "partial-dictionary", "pre-existing dictionary changed by a failed write"))
    return out


def _may_be_unrealisable(program) -> bool:
    """some chop preserves a first/last cell size (explicit or derived) or is size-based"""
    for op in program["ops"]:
        if op["op"] == "chop":
            a = op["args"]
            if a.get("preserve") in ("start_size", "end_size") or a.get("start_size") is not None or a.get("end_size") is not None:
                return True
    return False


def decode_sizes(program, names, parsed, elen: Dict[frozenset, float]):
    """per block, per axis, per k: (point-id pair, sizes list in the block's own sense)"""
    vmap = map_vertices(parsed, program)
    inv = {v: k for k, v in vmap.items()}
    out = []
    for bi, blk in enumerate(parsed.blocks):
        per = []
        for a in range(3):
            row = []
            for k, (u, v) in enumerate(hexref.AXIS_EDGES[a]):
                p, q = inv.get(blk["idx"][u]), inv.get(blk["idx"][v])
                L = elen.get(frozenset((p, q)))
                if p is None or q is None or L is None:
                    row.append(None)
                    continue
                sizes = models.cell_sizes(L, blk["gradings"][4 * a + k], blk["counts"][a])
                row.append((p, q, L, sizes))
            per.append(row)
        out.append(per)
    return out


def family_compatible(asm: models.Assembly, srcs) -> bool:
    """Several chopped sources in one family demand the same physical grading?"""
    if len(srcs) <= 1:
        return True
    norm = []
    for (bi, a, par) in srcs:
        secs = asm.blocks[bi].chops[a]
        for s in secs:
            if s.get("preserve") in ("start_size", "end_size") or s.get("start_size") is not None or s.get("end_size") is not None:
                return False
        secs = [invert_chop(s) for s in reversed(secs)] if par else [dict(s) for s in secs]
        norm.append([(s.get("count"), round(s.get("c2c_expansion") or 0, 9), round(s.get("total_expansion") or 0, 9),
                      round(s.get("length_ratio", 1.0), 9)) for s in secs])
    return all(n == norm[0] for n in norm[1:])


def oracle_sizes(program, asm: models.Assembly, names, verdict, res: RunResult, parsed) -> Tuple[List[Violation], Dict[str, int]]:
    """C04: same physical cell-size sequence on shared edges; preserve realised."""
    out: List[Violation] = []
    stats = {"shared_edges_compared": 0, "anti_aligned_compared": 0, "preserve_checked": 0, "mobius_skipped": 0,
             "multi_section_compared": 0, "curved_compared": 0}
    if res.outcome != "ok" or parsed is None or len(parsed.blocks) != len(names):
        return out, stats
    elen = edge_geometry(program)
    if program.get("meta", {}).get("scale"):
        # a model in very small units: the library may leave out a curve it takes for straight (absolute
        # tolerance); sizes are judged on the geometry the file describes
        elen = edge_geometry_written(program, parsed)
        if elen is None:
            return out, stats
        stats["scaled_models"] = 1
    pts = program["points"]
    dec = decode_sizes(program, names, parsed, elen)
    per_edge: Dict[frozenset, List[Tuple[str, int, int, List[float], bool]]] = {}
    for bi, per in enumerate(dec):
        for a in range(3):
            for k, item in enumerate(per[a]):
                if item is None:
                    continue
                p, q, L, sizes = item
                if sizes is None:
                    out.append(Violation("C04", "undecodable-grading", f"{names[bi]} axis {a} edge {k}: {parsed.blocks[bi]['gradings'][4*a+k]} with count {parsed.blocks[bi]['counts'][a]}"))
                    continue
                lo = min(p, q)
                fwd = p == lo
                canon = sizes if fwd else list(reversed(sizes))
                per_edge.setdefault(frozenset((p, q)), []).append((names[bi], a, k, canon, fwd))
    fams = asm.families()
    name_index = {n: i for i, n in enumerate(names)}
    for key, users in per_edge.items():
        if len(users) < 2:
            continue
        # an edge that two chopped directions own with different demands cannot satisfy both:
        # nothing is demanded there; every other shared edge must agree (a chop-less block
        # between two differently graded neighbours is written with edgeGrading)
        src_users = []
        for u in users:
            bi = name_index[u[0]]
            if asm.blocks[bi].chops[u[1]]:
                src_users.append((bi, u[1], asm.family_of(bi, u[1])[1]))
        if len(src_users) >= 2 and not family_compatible(asm, src_users):
            stats["incompatible_demands_skipped"] = stats.get("incompatible_demands_skipped", 0) + 1
            continue
        if len(verdict.sources.get(asm.family_of(name_index[users[0][0]], users[0][1])[0], [])) >= 2:
            stats["multi_source_edges_compared"] = stats.get("multi_source_edges_compared", 0) + 1
        if asm.family_of(name_index[users[0][0]], users[0][1])[0] in asm.mobius:
            # a family that is anti-aligned with itself (a ring that twists): no dictionary can give a graded
            # edge the same physical sequence from every member - an impossible demand, not judged
            stats["mobius_skipped"] += 1
            continue
        L = elen[key]
        stats["shared_edges_compared"] += 1
        if len({u[4] for u in users}) > 1:
            stats["anti_aligned_compared"] += 1
        straight = abs(L - models.dist(pts[min(key)], pts[max(key)])) < 1e-12
        if not straight:
            stats["curved_compared"] += 1
        first = users[0]
        if len(first[3]) > 1 and any(len(parsed.blocks[names.index(u[0])]["gradings"][4 * u[1] + u[2]]) > 1 for u in users):
            stats["multi_section_compared"] += 1
        for u in users[1:]:
            if not models.seq_close(first[3], u[3], 1e-6, L):
                out.append(Violation("C04", "shared-edge-size-mismatch",
                                     f"edge {sorted(key)}: {first[0]}.a{first[1]} sizes {_fmt(first[3])} vs {u[0]}.a{u[1]} {_fmt(u[3])}"))
                break
        if out:
            break
    # a chopped direction is written with its own chops: for sections given by count alone, count +
    # cell-to-cell expansion or count + total expansion (default preserve) the relative cell sizes
    # follow from the declaration without any solving
    for bi, rb in enumerate(asm.blocks):
        for a in range(3):
            secs = rb.chops[a]
            if asm.family_of(bi, a)[0] in asm.mobius:
                continue  # (a family anti-aligned with itself: see above)
            if not secs or any(sc.get("preserve") in ("start_size", "end_size") or sc.get("start_size") is not None
                               or sc.get("end_size") is not None or sc.get("count") is None for sc in secs):
                continue
            spec = []
            for sc in secs:
                n = max(int(sc["count"]), 1)
                if sc.get("total_expansion") is not None:
                    e = float(sc["total_expansion"])
                elif sc.get("c2c_expansion") is not None:
                    e = float(sc["c2c_expansion"]) ** (n - 1)
                else:
                    e = 1.0
                spec.append((float(sc.get("length_ratio", 1.0)), float(n), e))
            total = sum(int(x[1]) for x in spec)
            want = models.cell_sizes(1.0, spec, total)
            if want is None:
                continue
            for k, item in enumerate(dec[bi][a]):
                if item is None or item[3] is None:
                    continue
                got = [x / item[2] for x in item[3]]
                stats["declared_gradings_checked"] = stats.get("declared_gradings_checked", 0) + 1
                if not models.seq_close(want, got, 1e-6, 1.0):
                    out.append(Violation("C04", "source-grading-not-as-declared",
                                         f"{names[bi]}.a{a} edge {k}: chops {secs} give relative cell sizes {_fmt(want)}, the file describes {_fmt(got)}"))
                    break
            else:
                continue
            break
    # preserve: for a family with a single chopped source whose section asks for start/end size
    mob = asm.mobius
    for root, members in fams.items():
        srcs = verdict.sources.get(root, [])
        if len(srcs) != 1:
            continue
        sb, sa, spar = srcs[0]
        secs = asm.blocks[sb].chops[sa]
        if not any(s.get("preserve") in ("start_size", "end_size") for s in secs):
            continue
        if root in mob:
            stats["mobius_skipped"] += 1
            continue
        nsec = len(secs)
        # reference size per section: from the four edges of the source (they must agree),
        # and the user's number when it was given explicitly
        for si, s in enumerate(secs):
            pres = s.get("preserve")
            if pres not in ("start_size", "end_size"):
                continue
            values = []
            for (bi, a, par) in members:
                flipped = par != spar
                for k, item in enumerate(dec[bi][a]):
                    if item is None or item[3] is None:
                        continue
                    sizes = item[3]
                    cells = models.section_cells(parsed.blocks[bi]["gradings"][4 * a + k], parsed.blocks[bi]["counts"][a])
                    if cells is None or len(cells) != nsec:
                        out.append(Violation("C04", "preserve-section-structure",
                                             f"{names[bi]}.a{a} edge {k}: {len(cells) if cells else None} sections, source has {nsec}"))
                        continue
                    if flipped:
                        sizes = list(reversed(sizes))
                        cells = list(reversed(cells))
                    start = sum(cells[:si])
                    val = sizes[start] if pres == "start_size" else sizes[start + cells[si] - 1]
                    values.append((names[bi], a, k, val))
            if not values:
                continue
            stats["preserve_checked"] += 1
            src_vals = [v[3] for v in values if v[0] == names[sb] and v[1] == sa]
            ref = s.get(pres)
            if ref is None:
                ref = src_vals[0] if src_vals else values[0][3]
            # (in a model in very small units the library's own absolute tolerance, 1e-7, is what a size can be held to)
            atol = 2e-7 if program.get("meta", {}).get("scale") else 1e-9
            bad = [v for v in values if abs(v[3] - ref) > 1e-6 * max(ref, 1e-9) + atol]
            if bad:
                out.append(Violation("C04", "preserve-not-realised",
                                     f"{pres} of section {si} on {names[sb]}.a{sa} should be {ref:.8g}; realised {[(b, a, k, round(v, 8)) for (b, a, k, v) in bad[:4]]}"))
    return out, stats


def _fmt(seq: List[float]) -> str:
    return "[" + ", ".join(f"{x:.6g}" for x in seq[:8]) + ("…" if len(seq) > 8 else "") + "]"
