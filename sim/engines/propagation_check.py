"""Seeded search driver for the propagation engine (C01, C02, C04)."""

import json
import os
import time
from typing import Any, Dict, List, Optional, Tuple

from .. import hexref, models, runner, shrink
from ..streams import Stream, digest, h64
from . import propagation as P

TIERS = {
    # seeds, configs per assembly, schedules per config, wall budget (s)
    "quick": {"C01": (1500, 2, 4, 100), "C02": (1100, 2, 6, 100), "C04": (1400, 2, 4, 100)},
    "thorough": {"C01": (12000, 4, 12, 1500), "C02": (10000, 4, 24, 1500), "C04": (10000, 4, 12, 1500)},
}

OPTS = {
    "C01": {"categories": [("ok", 0.3), ("undefined", 0.1), ("conflict", 0.6)], "p_curved": 0.0, "jitters": [0.0, 0.05, 0.15], "p_path": 0.2},
    "C02": {"categories": [("ok", 0.6), ("undefined", 0.3), ("conflict", 0.1)], "p_curved": 0.05, "p_multi_source": 0.6, "p_path": 0.4, "p_infeasible": 0.08,
            "p_same_expansion": 0.5, "jitters": [0.0, 0.05, 0.15]},
    "C04": {"categories": [("ok", 0.95), ("undefined", 0.0), ("conflict", 0.05)], "p_curved": 0.12, "p_multi_source": 0.3, "p_path": 0.25,
            "p_same_expansion": 0.5, "jitters": [0.0, 0.05, 0.05, 0.15, 0.15, 0.25]},
}

MODES = ["uniform", "chopless_first", "asc", "desc", "uniform", "chopped_first", "uniform", "reverse"]


def schedules(seed: int, cfg: int, k: int) -> List[Dict[str, Any]]:
    return [{"seed": h64(seed, "sched", cfg, j) % (1 << 31), "mode": MODES[j % len(MODES)]} for j in range(k)]


def build(seed: int, pid: str, ncfg: int) -> Tuple[Dict[str, Any], List[Dict[str, Any]]]:
    rs = Stream(seed, "workload", pid)
    opts = OPTS[pid]
    if pid == "C04" and rs.chance(0.06):
        # entities without curved edges (stacks with unequal tiers, shells, connectors, shapes over mapped sketches):
        # their operations' points are all the geometry there is, so the cell-size oracle can judge them
        if rs.sub("zoo").chance(0.5):
            from . import zoo

            progs = [zoo.gen_zoo_program(Stream(seed, "zoo", pid), h64(seed, "cfg", c) % (1 << 31), P.DICT_PATH, P.VTK_PATH, straight=True) for c in range(ncfg)]
            if not progs[0]["meta"]["category"].startswith("construction-failed"):
                return {"meta": progs[0]["meta"], "points": {}, "blocks": [], "chops": progs[0]["ops"]}, progs
        progs = [P.gen_shape_program(Stream(seed, "shape", pid), h64(seed, "cfg", c) % (1 << 31), kinds=["tstack", "tstack", "stack"]) for c in range(ncfg)]
        return {"meta": progs[0]["meta"], "points": {}, "blocks": [], "chops": progs[0]["ops"]}, progs
    if pid in ("C01", "C02") and rs.chance(opts.get("p_shapes", 0.14 if pid == "C02" else 0.08)):
        if rs.sub("zoo").chance(0.45):
            # the less common entities (elbows, sketch-based shapes and stacks, shells, connectors, wedges, ...)
            from . import zoo

            progs = [zoo.gen_zoo_program(Stream(seed, "zoo", pid), h64(seed, "cfg", c) % (1 << 31), P.DICT_PATH, P.VTK_PATH) for c in range(ncfg)]
            if not progs[0]["meta"]["category"].startswith("construction-failed"):
                return {"meta": progs[0]["meta"], "points": {}, "blocks": [], "chops": progs[0]["ops"]}, progs
        progs = [P.gen_shape_program(Stream(seed, "shape", pid), h64(seed, "cfg", c) % (1 << 31)) for c in range(ncfg)]
        return {"meta": progs[0]["meta"], "points": {}, "blocks": [], "chops": progs[0]["ops"]}, progs
    if pid == "C01" and rs.chance(0.1):
        geo = camp_row(rs.sub("camps"))
    elif rs.chance(opts.get("p_pie", 0.05)):
        geo = P.place_chops(rs.sub("chops"), P.gen_pie(rs.sub("pie")), opts)
    else:
        geo = P.gen_assembly(rs.sub("geo"), opts)
        geo = P.add_curved(rs.sub("curved"), geo, opts)
        geo = P.place_chops(rs.sub("chops"), geo, opts)
        if pid == "C02" and geo.get("curved") and len(geo["curved"]) <= 2 and len(geo["blocks"]) <= 4 and rs.sub("arc_as").chance(0.3):
            # the same arcs, declared (by every configuration) as edges snapped to a parametric circle; the
            # library measures those by sampling, so only agreement between members and between configurations
            # is judged for them, which is all the C02 oracles do
            geo["arc_as"] = "oncurve"
    if pid == "C02" and rs.chance(0.2):
        # patches and merged pairs: vertices on a slave patch are duplicated, which cuts edge families
        # at the merged interface (the reference model takes that into account)
        pr = rs.sub("patches")
        names_ = ["ifa", "ifb", "walls"]
        pats = {}
        for b in geo["blocks"]:
            for sd in hexref.SIDES:
                if pr.chance(0.2):
                    pats[(b["name"], sd)] = pr.pick(names_)
        # real interfaces: the two sides of a face shared by two blocks
        blocks_ = geo["blocks"]
        for i_ in range(len(blocks_)):
            for j_ in range(i_ + 1, len(blocks_)):
                common = set(blocks_[i_]["corners"]) & set(blocks_[j_]["corners"])
                if len(common) == 4 and pr.chance(0.5):
                    for b, nm_ in ((blocks_[i_], "ifa"), (blocks_[j_], "ifb")):
                        sd = [x for x in hexref.SIDES if {b["corners"][c] for c in hexref.SIDE_CORNERS[x]} == common][0]
                        pats[(b["name"], sd)] = nm_
        geo["patches"] = [(bn, sd, nm_) for (bn, sd), nm_ in sorted(pats.items())]
        # (one pair, or two pairs with two different slave patches: a corner may then lie on both)
        geo["merges"] = pr.pick([[("ifa", "ifb")], [("ifb", "ifa")], [("walls", "ifa")], [("ifa", "ifb"), ("ifa", "walls")], [("walls", "ifb"), ("walls", "ifa")],
                                 [("ifa", "ifb"), ("ifa", "walls")]])
        if len(geo["merges"]) == 2:
            # more of the sides carry one of the two slave names, also on blocks that share corners
            sl = [s_ for (_, s_) in geo["merges"]]
            for b in geo["blocks"]:
                for sd in hexref.SIDES:
                    if (b["name"], sd) not in pats and pr.chance(0.3):
                        pats[(b["name"], sd)] = pr.pick(sl)
            geo["patches"] = [(bn, sd, nm_) for (bn, sd), nm_ in sorted(pats.items())]
    if rs.chance(opts.get("p_rewrite", 0.3)):
        # the same assembled mesh is written a second time: as it is (C02: same file again), or after
        # 1-3 vertex moves (C01: still consistent; C04: sizes realised on the new lengths)
        mr = rs.sub("rewrite")
        # (addressed by point id, so the same vertices move whatever the add order and block orientation)
        moves = [{"point": geo["blocks"][0]["corners"][mr.randrange(8)], "d": [round(mr.uniform(-0.22, 0.22), 4) for _ in range(3)]}
                 for _ in range(mr.randint(1, 3))]
        if (pid == "C02" and mr.chance(0.6)) or (pid == "C04" and mr.chance(0.5)):
            moves = []
        if pid == "C04" and moves:
            geo["curved"] = {}  # moved end points of declared arcs / polylines would change the curves themselves
        geo["rewrite"] = moves
        geo["rewrite_remesh"] = (not moves) and mr.chance(0.4)
        geo["rewrite_back"] = bool(moves) and mr.chance(0.5)
    if pid == "C04" and "pie" not in geo and rs.sub("scale").chance(0.08):
        geo = P.scale_geo(geo, rs.sub("scale", "s").pick([1e-3, 3e-4, 1e-4]))
        geo.pop("rewrite", None)
    if rs.sub("retry").chance(0.25):
        geo["retry"] = True
        if geo.get("late_chops") and rs.sub("retry", "fix").chance(0.6):
            geo["late_fix"] = True
            # (that correction lives on the first Mesh's blocks, not on the operations: a second Mesh object
            # given the same operations is under-specified again, so no second write through one)
            geo["rewrite_remesh"] = False
    programs = [P.make_program(geo, h64(seed, "cfg", c) % (1 << 31), identity=(c == 0)) for c in range(ncfg)]
    if pid == "C01" and rs.sub("late_conflict").chance(0.3):
        programs = [late_conflict(p_) or p_ for p_ in programs]
    return geo, programs


def late_conflict(program: Dict[str, Any]):
    """A conflicting model whose odd chop arrives late: the script writes the consistent model, then chops one more
    operation (which contradicts an earlier chop), clears, assembles and writes again - that second write must fail
    with an inconsistent-grading error like a first one would. None if the program is not of that kind."""
    ops = program["ops"]
    if sum(1 for o in ops if o["op"] in ("write", "try_write")) != 1 or ops[-1]["op"] != "write" or any(o["op"] in ("remesh", "merge") for o in ops):
        return None
    asm, names = P.ref_assembly(program)
    verdict = models.judge_families(asm)
    if verdict.klass != "conflict" or len(verdict.conflicts) != 1:
        return None
    known = verdict.conflicts[0][1]
    n, a, _ = known[-1]
    late = [o for o in ops if o["op"] == "chop" and o["target"] == n and o["axis"] == a]
    rest = [o for o in ops if o not in late]
    a2, _ = P.ref_assembly(dict(program, ops=rest))
    if models.judge_families(a2).klass != "ok":
        return None
    out = dict(program)
    out["ops"] = rest + late + [{"op": "clear"}, {"op": "assemble"}, {"op": "write", "path": P.DICT_PATH + ".second"}]
    out["meta"] = dict(program.get("meta", {}), late_conflict=True)
    return out


def camp_row(rs: Stream) -> Dict[str, Any]:
    """A row of 4-5 boxes, every one chopped in the same cross direction; the first k demand one
    count, the others another (or, in a third of the cases, the same: then the file must be written).
    The conflict sits between two blocks that each have an agreeing neighbour on their other side."""
    n = rs.pick([4, 4, 5])
    axis_row = rs.randrange(3)
    cells = [tuple(i if d == axis_row else 0 for d in range(3)) for i in range(n)]
    spacing = [rs.uniform(0.7, 1.4) for _ in range(3)]
    points: Dict[str, List[float]] = {}
    blocks = []
    for i, c in enumerate(cells):
        corners = []
        for off in hexref.CORNER_POS:
            node = (c[0] + off[0], c[1] + off[1], c[2] + off[2])
            pid_ = f"n{node[0]}_{node[1]}_{node[2]}"
            points.setdefault(pid_, [round(node[k] * spacing[k], 6) for k in range(3)])
            corners.append(pid_)
        blocks.append({"name": f"b{i}", "cell": list(c), "corners": corners})
    cross = rs.pick([d for d in range(3) if d != axis_row])
    k = rs.randint(1, n - 1)
    n1 = rs.randint(2, 9)
    n2 = n1 if rs.chance(0.33) else n1 + rs.pick([1, 2, 3])
    chops = []
    for i in range(n):
        chops.append({"block": f"b{i}", "axis": cross, "sections": [{"count": n1 if i < k else n2}]})
    # the two other directions: one chop each, somewhere
    for d in range(3):
        if d != cross:
            chops.append({"block": f"b{rs.randrange(n)}", "axis": d, "sections": [{"count": rs.randint(2, 5)}]})
            if d != axis_row:
                pass
    # the remaining direction families: along the row every block is its own family
    for i in range(n):
        if not any(ch["block"] == f"b{i}" and ch["axis"] == axis_row for ch in chops):
            chops.append({"block": f"b{i}", "axis": axis_row, "sections": [{"count": rs.randint(2, 4)}]})
    return {"points": points, "blocks": blocks, "curved": {}, "chops": chops,
            "meta": {"category": "camps" if n1 != n2 else "camps-agree", "adjacent_conflict": 1}}


def evaluate(pid: str, program: Dict[str, Any], scheds: List[Dict[str, Any]], pre_files=None) -> Dict[str, Any]:
    """Runs one program under the given schedules and applies every oracle.
    Returns violations (all properties), per-run info and reach statistics."""
    shapes = bool(program.get("meta", {}).get("shapes"))
    asm = names = verdict = None
    if not shapes:
        asm, names = P.ref_assembly(program)
        verdict = models.judge_families(asm)
    viols: List[Dict[str, Any]] = []
    runs = []
    stats: Dict[str, int] = {}
    first = None
    for si, sc in enumerate(scheds):
        res = P.run_once(program, sc, pre_files)
        if shapes:
            if res.snapshot is None:
                # construction itself failed: not a propagation verdict
                runs.append({"sched": sc, "outcome": res.outcome, "sig": digest(res.outcome), "log": res.log_digest, "copy_calls": 0,
                             "decisions": 0, "fam_counts": None, "consulted": {}, "msg": res.exc_msg})
                stats["shape_construction_failed"] = stats.get("shape_construction_failed", 0) + 1
                continue
            asm, names = P.assembly_from_snapshot(res.snapshot)
            if any(len(set(b.corners)) < 8 for b in asm.blocks):
                # an operation with coincident corners (a connector that picked its faces differently under this
                # schedule): not a hexahedron, not a propagation verdict
                runs.append({"sched": sc, "outcome": "degenerate-operation", "sig": digest("degenerate-operation"), "log": res.log_digest, "copy_calls": 0,
                             "decisions": 0, "fam_counts": None, "consulted": {}, "msg": res.exc_msg})
                stats["shape_construction_failed"] = stats.get("shape_construction_failed", 0) + 1
                asm = names = None
                continue
            verdict = models.judge_families(asm)
        parsed = None
        vs: List[P.Violation] = []
        try:
            parsed = P.parse_result(res) if res.outcome == "ok" else None
        except Exception as e:
            vs.append(P.Violation("C06", "unparsable", repr(e)))
        second = None
        if len(res.writes) >= 2:
            # primary oracles look at the first write; the second one (after vertex moves)
            # must still be internally consistent (C01 holds whenever writing succeeds)
            second = res.writes[1]
            res.files = dict(res.files)
            res.files[P.DICT_PATH] = res.writes[0][0]
            res.live = res.writes[0][1]
            try:
                parsed = P.parse_result(res)
            except Exception as e:
                vs.append(P.Violation("C06", "unparsable", repr(e)))
        vs += P.oracle_counts(program, asm, names, verdict, res, parsed)
        moved = any(op["op"] == "move_vertex" for op in program["ops"])
        if second is not None and second[0] is not None and not moved:
            stats["plain_second_writes"] = stats.get("plain_second_writes", 0) + 1
            if second[0] != res.writes[0][0]:
                vs.append(P.Violation("C02", "second-write-differs", "the same assembled mesh written twice gives two different files: "
                                      + _first_diff(res.writes[0][0], second[0])))
        if len(res.writes) == 1 and res.outcome != "ok" and sum(1 for op in program["ops"] if op["op"] == "write") == 2 and not moved \
                and not program.get("meta", {}).get("late_conflict"):
            vs.append(P.Violation("C02", "second-write-fails", f"the first write succeeded, writing the same mesh again ends {res.outcome}: {res.exc_msg[:200]}"))
        if second is not None and second[0] is not None and moved and pid == "C04" and parsed is not None:
            # sizes on the second file, against the moved geometry
            try:
                from .. import foam as _foam
                parsed2 = _foam.parse_blockmeshdict(second[0])
                prog2 = moved_program(program, parsed)
                if prog2 is not None:
                    res2 = P.RunResult()
                    res2.outcome = "ok"
                    v4b, st4b = P.oracle_sizes(prog2, asm, names, verdict, res2, parsed2)
                    for v in v4b:
                        v.detail = "second write after vertex moves: " + v.detail
                        v.key = v.key + ":second-write"
                    vs += v4b
                    stats["second_writes_sized"] = stats.get("second_writes_sized", 0) + 1
            except Exception as e:
                vs.append(P.Violation("C04", "second-write-unparsable", repr(e)))
        if len(res.writes) >= 3 and res.writes[2][0] is not None:
            # third write, vertices back in place: the file of the first write again
            stats["third_writes_checked"] = stats.get("third_writes_checked", 0) + 1
            try:
                from .. import foam as _foam
                parsed3 = _foam.parse_blockmeshdict(res.writes[2][0])
                res3 = P.RunResult()
                res3.outcome, res3.live = "ok", res.writes[2][1]
                v3 = P.oracle_counts(program, asm, names, verdict, res3, parsed3)
                for v in v3:
                    v.detail = "third write (vertices moved and put back): " + v.detail
                    v.key = v.key + ":third-write"
                vs += v3
                if not v3 and res.writes[2][0] != res.writes[0][0]:
                    vs.append(P.Violation("C02", "third-write-differs", "vertices moved and put back exactly: the file differs from the first one: "
                                          + _first_diff(res.writes[0][0], res.writes[2][0])))
            except Exception as e:
                vs.append(P.Violation("C01", "third-write-unparsable", repr(e)))
        if second is not None and second[0] is not None:
            stats["second_writes_checked"] = stats.get("second_writes_checked", 0) + 1
            try:
                from .. import foam as _foam
                parsed2 = _foam.parse_blockmeshdict(second[0])
                res2 = P.RunResult()
                res2.outcome, res2.live = "ok", second[1]
                v2 = P.oracle_counts(program, asm, names, verdict, res2, parsed2)
                for v in v2:
                    v.detail = "second write after vertex moves: " + v.detail
                    v.key = v.key + ":second-write"
                vs += v2
            except Exception as e:
                vs.append(P.Violation("C01", "second-write-unparsable", repr(e)))
        vs += P.oracle_outcome(program, verdict, res, pre_files)
        if not shapes:
            v4, st4 = P.oracle_sizes(program, asm, names, verdict, res, parsed)
        elif pid == "C04" and parsed is not None and not parsed.edges and res.snapshot is not None:
            # a shape-built assembly whose edges are all straight: judged like the equivalent hex-only program
            v4, st4 = P.oracle_sizes(P.hex_program_from_snapshot(res.snapshot), asm, names, verdict, res, parsed)
            st4["straight_shape_programs_sized"] = 1
        else:
            v4, st4 = [], {}
        vs += v4
        for k, v in st4.items():
            stats[k] = stats.get(k, 0) + v
        for k, v in res.probes.items():
            stats[k] = stats.get(k, 0) + v
        stats["decisions"] = stats.get("decisions", 0) + res.decisions
        fam_counts = None
        if parsed is not None and len(parsed.blocks) == len(names):
            fam_counts = {f"{n}.g{a}": parsed.blocks[bi]["counts"][a] for bi, n in enumerate(names) for a in range(3)} if shapes \
                else family_counts(program, names, parsed)
        sig = (res.outcome, tuple(sorted((k, digest(v)) for k, v in res.files.items())))
        runs.append({"sched": sc, "outcome": res.outcome, "sig": digest(sig), "log": res.log_digest, "copy_calls": res.copy_calls,
                     "decisions": res.decisions, "fam_counts": fam_counts, "consulted": res.consulted, "msg": res.exc_msg})
        if first is None:
            first = (si, sig, res)
        elif sig != first[1]:
            a, b = first[2], res
            what = f"schedule {first[0]} -> {a.outcome}, schedule {si} -> {b.outcome}"
            if a.outcome == b.outcome == "ok":
                what += "; files differ: " + _first_diff(a.files.get(P.DICT_PATH, ""), b.files.get(P.DICT_PATH, ""))
            vs.append(P.Violation("C02", "schedule-dependent-outcome", what, key="schedule-dependent-outcome"))
        for v in vs:
            d = v.to_json()
            d["sched_index"] = si
            viols.append(d)
    if verdict is None:
        return {"violations": viols, "runs": runs, "stats": stats, "klass": "construction-failed", "n_blocks": 0, "families": 0, "multi_source": 0}
    if shapes:
        stats["shape_programs"] = stats.get("shape_programs", 0) + 1
        kind_ = str(program["meta"]["shapes"])
        if kind_.startswith("zoo:"):
            stats["entity_" + kind_] = stats.get("entity_" + kind_, 0) + 1
    return {"violations": viols, "runs": runs, "stats": stats, "klass": ("shape:" if shapes else "") + verdict.klass, "n_blocks": len(names),
            "families": verdict.n_families, "multi_source": verdict.multi_source}


def moved_program(program, parsed_first):
    """the program's point table after its move_vertex steps (vertex index -> point id through
    the positions in the first written file)"""
    vmap = P.map_vertices(parsed_first, program)
    inv = {v: k for k, v in vmap.items()}
    pts = {k: list(v) for k, v in program["points"].items()}
    for op in program["ops"]:
        if op["op"] == "move_vertex":
            pid_ = op["point"] if "point" in op else inv.get(op["index"])
            if pid_ is None:
                return None
            pts[pid_] = [pts[pid_][i] + op["d"][i] for i in range(3)]
    out = dict(program)
    out["points"] = pts
    return out


def family_counts(program, names, parsed) -> Dict[str, int]:
    """(block, canonical axis) -> count; canonical axis recovered through the recorded rotation"""
    rots = {op["name"]: op.get("rot", hexref.IDENTITY) for op in program["ops"] if op["op"] == "hex"}
    out = {}
    for bi, nme in enumerate(names):
        for g in range(3):
            a, _ = hexref.map_axis(rots[nme], g)
            out[f"{nme}.g{g}"] = parsed.blocks[bi]["counts"][a]
    return out


def _first_diff(a: str, b: str) -> str:
    la, lb = a.split("\n"), b.split("\n")
    for i, (x, y) in enumerate(zip(la, lb)):
        if x != y:
            return f"line {i}: {x.strip()[:90]!r} vs {y.strip()[:90]!r}"
    return f"lengths {len(la)} vs {len(lb)}"


def task(seed: int, arg: Dict[str, Any]) -> Dict[str, Any]:
    pid, ncfg, k = arg["pid"], arg["ncfg"], arg["k"]
    geo, programs = build(seed, pid, ncfg)
    out: Dict[str, Any] = {"seed": seed, "violations": [], "runs": 0, "stats": {}, "sigs": [], "meta": geo.get("meta", {})}
    base_counts = None
    base_class = None
    for ci, program in enumerate(programs):
        # (shape programs and programs with sampled curve edges are slow: two schedules each)
        scheds = schedules(seed, ci, 2 if (program.get("meta", {}).get("shapes") or geo.get("arc_as")) else k)
        # sometimes a dictionary from an earlier run is already there: a failed write must leave it alone
        pre = {P.DICT_PATH: "// blockMeshDict written by an earlier run\n"} if (pid == "C02" and h64(seed, "pre") % 3 == 0) else None
        ev = evaluate(pid, program, scheds, pre)
        out["runs"] += len(ev["runs"])
        for kk, v in ev["stats"].items():
            out["stats"][kk] = out["stats"].get(kk, 0) + v
        out["klass"] = ev["klass"]
        out["n_blocks"] = ev["n_blocks"]
        nontrivial = ev["stats"].get("multi_candidates", 0) > 0 or ev["stats"].get("decisions", 0) > 0
        for r in ev["runs"]:
            out["sigs"].append((digest((sorted(geo["points"]), [b["corners"] for b in geo["blocks"]], geo["chops"])), ci, r["log"],
                                nontrivial or bool(geo.get("meta", {}).get("shapes"))))
        for v in ev["violations"]:
            v = dict(v)
            v["replay"] = {"program": program, "schedules": [scheds[0], scheds[v["sched_index"]]] if v["class"] == "schedule-dependent-outcome" else [scheds[v["sched_index"]]]}
            if pre:
                v["replay"]["pre_files"] = pre
            out["violations"].append(v)
        # across configurations: same outcome class, same count for every block direction
        r0 = ev["runs"][0]
        if ev["klass"] == "construction-failed" or any(r["outcome"] == "degenerate-operation" for r in ev["runs"]):
            continue
        oc = "ok" if r0["outcome"] == "ok" else ("livelock" if r0["outcome"] == "livelock" else "error")
        if base_class is None:
            base_class, base_counts, base_prog, base_sched = oc, r0["fam_counts"], program, scheds[0]
        else:
            if oc != base_class and "livelock" not in (oc, base_class):
                out["violations"].append({"property": "C02", "class": "configuration-dependent-outcome", "key": "configuration-dependent-outcome",
                                          "detail": f"configuration 0 ends {base_class}, configuration {ci} ends {oc} ({r0['outcome']} {r0['msg']})",
                                          "replay": {"program": base_prog, "program_b": program, "schedules": [base_sched, scheds[0]]}})
            elif base_counts is not None and r0["fam_counts"] is not None and base_counts != r0["fam_counts"]:
                diff = {kk: (base_counts[kk], r0["fam_counts"].get(kk)) for kk in base_counts if base_counts[kk] != r0["fam_counts"].get(kk)}
                out["violations"].append({"property": "C02", "class": "configuration-dependent-counts", "key": "configuration-dependent-counts",
                                          "detail": f"counts differ between numberings/add orders: {diff}",
                                          "replay": {"program": base_prog, "program_b": program, "schedules": [base_sched, scheds[0]]}})
    if arg.get("sample"):
        out["sample"] = {"program_ops": programs[-1]["ops"], "meta": programs[-1]["meta"], "schedule": schedules(seed, len(programs) - 1, k)[0]}
    return out


def replay_check(pid: str, rp: Dict[str, Any]) -> List[Dict[str, Any]]:
    """Re-executes a replay file's content; returns the violations of `pid` observed."""
    found = []
    progs = [rp["program"]] + ([rp["program_b"]] if "program_b" in rp else [])
    if len(progs) == 1:
        ev = evaluate(pid, progs[0], rp["schedules"], rp.get("pre_files"))
        found = ev["violations"]
    else:
        evs = [evaluate(pid, p, [s]) for p, s in zip(progs, rp["schedules"])]
        for ev in evs:
            found += ev["violations"]
        a, b = evs[0]["runs"][0], evs[1]["runs"][0]
        ca = "ok" if a["outcome"] == "ok" else "error"
        cb_ = "ok" if b["outcome"] == "ok" else "error"
        if ca != cb_:
            found.append({"property": "C02", "class": "configuration-dependent-outcome", "key": "configuration-dependent-outcome", "detail": f"{a['outcome']} vs {b['outcome']}"})
        elif a["fam_counts"] and b["fam_counts"] and a["fam_counts"] != b["fam_counts"]:
            found.append({"property": "C02", "class": "configuration-dependent-counts", "key": "configuration-dependent-counts", "detail": "counts differ"})
    return found


# ---------------------------------------------------------------------------------------
# minimisation candidates
# ---------------------------------------------------------------------------------------


def _drop_block(program, name):
    p = dict(program)
    p["ops"] = [op for op in program["ops"] if not (op.get("name") == name or op.get("target") == name)]
    return p


def _prog_candidates(program):
    names = [op["name"] for op in program["ops"] if op["op"] == "hex"]
    if len(names) > 1:
        for n in names:
            yield _drop_block(program, n)
    groups = {}
    for i, op in enumerate(program["ops"]):
        if op["op"] == "chop":
            groups.setdefault((op["target"], op["axis"]), []).append(i)
        elif op["op"] == "sub_chop":
            groups.setdefault((op["target"], op["index"], op["axis"]), []).append(i)
    # drop all chops of one block direction (sections of a multi-grading go together)
    for key, idxs in groups.items():
        p = dict(program)
        p["ops"] = [op for i, op in enumerate(program["ops"]) if i not in idxs]
        yield p
    # replace the chops of a direction by a plain count
    for key, idxs in groups.items():
        total = 0
        for i in idxs:
            c = program["ops"][i]["args"].get("count")
            if c is None:
                total = None
                break
            total += c
        if total is None or len(key) == 3:
            continue
        simple = {"op": "chop", "target": key[0], "axis": key[1], "args": {"count": total}}
        if len(idxs) == 1 and program["ops"][idxs[0]]["args"] == simple["args"]:
            continue
        p = dict(program)
        p["ops"] = [simple if i == idxs[0] else op for i, op in enumerate(program["ops"]) if i == idxs[0] or i not in idxs]
        yield p
    # drop 'preserve' alone
    for i, op in enumerate(program["ops"]):
        if op["op"] == "chop" and "preserve" in op["args"]:
            p = dict(program)
            p["ops"] = list(program["ops"])
            p["ops"][i] = dict(op, args={k: v for k, v in op["args"].items() if k != "preserve"})
            yield p
    for i, op in enumerate(program["ops"]):
        if op["op"] == "hex" and op.get("edges"):
            if len(op["edges"]) > 1:
                for j in range(len(op["edges"])):
                    p = dict(program)
                    p["ops"] = list(program["ops"])
                    p["ops"][i] = dict(op, edges=op["edges"][:j] + op["edges"][j + 1:])
                    yield p
            p = dict(program)
            p["ops"] = list(program["ops"])
            q = dict(op)
            q.pop("edges")
            p["ops"][i] = q
            yield p
    # unused points
    used = set()
    for op in program["ops"]:
        if op["op"] == "hex":
            used.update(op["corners"])
    if len(used) < len(program["points"]):
        p = dict(program)
        p["points"] = {k: v for k, v in program["points"].items() if k in used}
        yield p


def shrink_candidates(rp):
    for key in ("program", "program_b"):
        if key not in rp:
            continue
        for p in _prog_candidates(rp[key]):
            c = dict(rp)
            c[key] = p
            if key == "program" and "program_b" in rp:
                continue  # paired programs are shrunk only through schedules
            yield c
    for i, sc in enumerate(rp["schedules"]):
        if sc.get("mode") != "insertion" or sc.get("explicit"):
            c = dict(rp)
            c["schedules"] = list(rp["schedules"])
            c["schedules"][i] = {"seed": 0, "mode": "insertion"}
            yield c
        if sc.get("mode") not in ("insertion", "reverse"):
            c = dict(rp)
            c["schedules"] = list(rp["schedules"])
            c["schedules"][i] = {"seed": 0, "mode": "reverse"}
            yield c
